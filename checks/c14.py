"""C14 - any bytes on an HTTP connection: wait, one valid error response, or close; never a crash; nothing retained.

The real ``circuits.web.http.HTTP`` component is driven through the event-injection harness with hostile byte
strings (mutations of grammar-generated requests, delivered in 1-3 reads, then optionally a disconnect).  After
every read the bytes written to the connection are parsed by the strict reference parser (vlib/ref_http.py) and by
``http.client``; a probe handler records dispatched ``request`` events; after the disconnect a generic residue
scanner and a weakref/gc reachability test look for the socket; a canary request on a fresh connection shows that
the loop is still running.  See DESIGN.md section 4, C14.
"""
import copy
import gc
import random
import re
import traceback
import weakref
from collections import deque

from vlib import ref_http
from vlib.batch import Batch, unjson

PROPERTY = 'C14'
LEVEL = 'exploration'
RULE = ('fixed corpus (one input per parser/HTTP branch named in the anchors: bad first line, bad version, other major version, '
        'missing Host, header without colon, invalid header name, non-numeric/negative/signed/conflicting Content-Length, '
        'Content-Length + chunked, folded header fields with and without control bytes on the continuation line, bad chunk size, missing chunk terminator, invalid escapes, NUL and high bytes, TLS/SSLv2 hello, '
        'oversized header, truncation of well-formed requests at every offset, each with disconnect after every read) + seeded '
        'mutations of grammar-generated requests cut into 1-3 reads with a disconnect after a random read; a case = (reads, '
        'disconnect point); non-trivial = the input is not a well-formed request delivered completely and at least one read was '
        'processed by the component; distinct = hash of the case')
ASSUMPTIONS = [
    'event-injection harness: one read event per segment, tree settled after each; after a close event for the connection the '
    'remaining reads are not delivered and disconnect is injected (as the transport would)',
    '"exactly one response" is evaluated per read: the bytes written in reaction to one read are nothing or one complete response',
    'mutation classes marked "reject" (request line without three tokens, invalid or other-major HTTP version, HTTP/1.1 without Host, '
    'header line without colon, invalid character in a header name, Content-Length that is not 1*DIGIT or conflicting) must not be '
    'dispatched and, if answered, answered 4xx/5xx; all other hostile inputs may be accepted leniently',
    'the probe request handler always succeeds, so a 400/505 next to a request event can only come from the HTTP component itself',
    'residue is looked for in the HTTP component (generic container scan) and by gc reachability of the socket object after the '
    'harness dropped its own references',
]
REQUIRED = ['application_failed_on_a_dispatched_request', 'status_400', 'status_505', 'status_500', 'status_200_dispatched', 'closed_without_response', 'waited_no_response',
            'exception_event_seen', 'disconnect_mid_message', 'disconnect_after_response', 'canary_answered', 'residue_scans',
            'weakref_checks', 'responses_parsed_by_reference', 'responses_crosschecked_http_client', 'reject_class_complete',
            'truncation_cases', 'multi_read_cases', 'ref_parser_selftest_checks', 'announced_close_followed_by_close', 'hostile_message_asked_with_HEAD',
            'another_connection_mid_request_while_the_hostile_message_arrives', 'message_cut_inside_its_trailer_section', 'hostile_message_on_a_connection_that_served_a_request_before',
            'served_request_was_followed_by_stray_bytes_in_its_read']
REQUIRED_OBLIGATIONS = ['INCOMPLETE_MESSAGE_WAITS', 'LOOP_SURVIVES', 'ONE_VALID_RESPONSE_PER_READ', 'CLOSE_FOLLOWS_ANNOUNCEMENT', 'REJECTED_NOT_DISPATCHED',
                        'ERROR_STATUS_FOR_REJECTED', 'NO_STATE_AFTER_DISCONNECT', 'WELL_FORMED_DISPATCHED', 'EXCEPTION_ANSWERED_OR_CLOSED',
                        'DISPATCHED_HEADERS_CLEAN', 'BARE_CLOSE_ONLY_FOR_TLS']
# KEPT_OPEN_CONNECTION_STILL_SERVES is only evaluated when the component answers a hostile message without closing; the tree under
# test closes after every error response, so zero evaluations of it are the expected outcome and it is not required
WORKER_TIMEOUT = {'quick': 300, 'thorough': 1500}

K_LEAK = 'http.parser-retained-after-disconnect'
K_CLEN = 'http.invalid-content-length-dispatched'
K_505 = 'http.505-echoes-request-version'
K_LOC = 'http.redirect-location-reflects-control-bytes'

CANARY = b'GET /canary HTTP/1.1\r\nHost: canary\r\n\r\n'
GOOD = b'GET /ok?x=1 HTTP/1.1\r\nHost: h\r\nX-A: 1\r\n\r\n'
GOOD_POST = b'POST /p HTTP/1.1\r\nHost: h\r\nContent-Length: 5\r\n\r\nhello'
GOOD_CHUNKED = b'POST /c HTTP/1.1\r\nHost: h\r\nTransfer-Encoding: chunked\r\n\r\n3\r\nabc\r\n2\r\nde\r\n0\r\n\r\n'
# ... with chunk extensions and a trailer section of two fields after the last chunk (RFC 7230 4.1.2): the message ends with the empty line after them
GOOD_TRAILERS = b'POST /ct HTTP/1.1\r\nHost: h\r\nTransfer-Encoding: chunked\r\nTrailer: X-Sum, X-Len\r\n\r\n3;e=1\r\nabc\r\n0;last\r\nX-Sum: 9\r\nX-Len: 3\r\n\r\n'
import gzip as _gzip  # noqa: E402
_GZ = _gzip.compress(b''.join(b'line %03d: the quick brown fox jumps over the lazy dog\n' % i for i in range(40)), mtime=0)
# a well-compressible gzip body: Content-Length counts the compressed bytes on the wire, not what they decompress to
GOOD_GZIP = b'POST /gz HTTP/1.1\r\nHost: h\r\nContent-Encoding: gzip\r\nContent-Length: %d\r\n\r\n%s' % (len(_GZ), _GZ)
# obs-text (RFC 7230 3.2.6): bytes >= 0x80 are legal in field values - raw UTF-8 and Latin-1 here
GOOD_OBS = b'GET /ok HTTP/1.1\r\nHost: h\r\nX-Name: caf\xc3\xa9 \xe9t\xe9\r\nCookie: n=\xe2\x82\xac\r\n\r\n'
PROBE_BODY = b'probe saw the request'
CTL_OR_BACKSLASH = re.compile(rb'[\x00-\x08\x0b\x0c\x0e-\x1f\x7f\\]')
OTHER_MAJOR = re.compile(rb'(?m)^([^\r\n]* )HTTP/[02-9]\.\d\r\n')


class Unsettled(Exception):
    pass


_ENV = {}


def env():
    if _ENV:
        return _ENV
    from circuits import BaseComponent, handler
    from circuits.net.events import disconnect, read
    from circuits.web.http import HTTP

    from vlib.inject import FakeSock, Wire

    class Probe(BaseComponent):
        channel = 'web'

        def __init__(self):
            super().__init__()
            self.seen = []
            self.dirty = []      # (name, value) of header fields handed to the application with NUL, CR or LF in them
            self.fail = False    # the application fails on every request it is handed (except the harness' canary)

        @handler('request', priority=10)
        def _v_on_request(self, event, req, res, *args):
            self.seen.append((req.method, req.path))
            try:
                items = list(req.headers.items())
            except Exception:  # noqa: BLE001
                items = []
            for k, v in items:
                if any(c in str(k) + str(v) for c in '\x00\r\n'):
                    self.dirty.append((str(k)[:40], str(v)[:80]))
            if self.fail and req.path != '/canary':
                raise RuntimeError('c14: the application fails while handling the request event')
            return PROBE_BODY.decode()

    _ENV.update(HTTP=HTTP, read=read, disconnect=disconnect, FakeSock=FakeSock, Wire=Wire, Probe=Probe)
    return _ENV


# ------------------------------------------------------------------------------------------------
# residue scanner (DESIGN.md 2.8)
# ------------------------------------------------------------------------------------------------
def _holds(val, sock, depth):
    if val is sock:
        return True
    if depth <= 0:
        return False
    if isinstance(val, dict):
        return any(k is sock or _holds(v, sock, depth - 1) for k, v in list(val.items()))
    if isinstance(val, (list, tuple, set, frozenset, deque)):
        return any(_holds(v, sock, depth - 1) for v in list(val))
    # request / response / parser wrappers: objects that name their connection
    for attr in ('sock', 'request'):
        inner = getattr(val, attr, None) if not isinstance(val, (str, bytes, int, float, type(None))) else None
        if inner is not None and _holds(inner, sock, depth - 1):
            return True
    return False


def scan_component(comp, sock):
    hits = []
    for name, val in list(vars(comp).items()):
        if isinstance(val, (dict, list, set, deque, tuple)) and name not in ('components',):
            try:
                if _holds(val, sock, 3):
                    hits.append('%s.%s' % (type(comp).__name__, name))
            except Exception:  # noqa: BLE001
                pass
    return hits


# ------------------------------------------------------------------------------------------------
# running one case
# ------------------------------------------------------------------------------------------------
def _inject(w, ev):
    try:
        w.inject(ev)
    except RuntimeError as e:
        if 'does not settle' in str(e):
            raise Unsettled(str(e))
        raise


def observe(case):
    """Deliver the case to a fresh tree.  Returns the observation dict (everything JSON-able)."""
    E = env()
    w = E['Wire']()
    http = E['HTTP'](w).register(w)
    probe = E['Probe']().register(w)
    probe.fail = case.get('app') == 'failing'
    w.settle()
    s = E['FakeSock']()
    obs = {'steps': [], 'crash': None, 'closed': False, 'disconnected': False, 'delivered': 0}
    # case option 'neighbour': the canary's connection is opened BEFORE the hostile message and has received the first half of its request
    # when the hostile bytes arrive; it is completed afterwards.  Another connection's message in progress is none of the hostile one's business
    c_early = None
    if case.get('neighbour'):
        c_early = E['FakeSock'](('10.9.9.9', 999))
        _inject(w, E['read'](c_early, CANARY[:len(CANARY) // 2]))
    chunks = case['chunks']
    stop_after = case.get('disconnect_after')        # number of reads after which the peer disconnects (None: never)
    try:
        for i, chunk in enumerate(chunks):
            if stop_after is not None and i >= stop_after:
                break
            m_out, m_seen, m_exc, m_dirty = len(w.out), len(probe.seen), len(w.exceptions), len(probe.dirty)
            _inject(w, E['read'](s, chunk))
            out = w.out[m_out:]
            step = {
                'written': b''.join(x[2] for x in out if x[0] == 'write' and x[1] is s),
                'closes': sum(1 for x in out if x[0] == 'close' and x[1] is s),
                'foreign': sum(1 for x in out if x[1] is not s),
                'requests': len(probe.seen) - m_seen,
                'dirty_headers': [list(x) for x in probe.dirty[m_dirty:]],
                'exceptions': [getattr(x[0], '__name__', repr(x[0])) for x in w.exceptions[m_exc:]],
            }
            obs['steps'].append(step)
            obs['delivered'] = i + 1
            if step['closes']:
                obs['closed'] = True
                break
        if obs['closed'] or stop_after is not None:
            m_out = len(w.out)
            _inject(w, E['disconnect'](s))
            obs['disconnected'] = True
            obs['after_disconnect'] = sum(1 for x in w.out[m_out:] if x[1] is s)
    except Unsettled:
        s.close()
        raise
    except BaseException as e:  # noqa: BLE001  an exception escaping tick() is the crash the property forbids
        obs['crash'] = {'error': repr(e), 'tb': traceback.format_exc(limit=10)}
    # the loop keeps running: a canary on a fresh connection is dispatched and answered
    c = c_early if c_early is not None else E['FakeSock']()
    try:
        m_seen = len(probe.seen)
        m_out = len(w.out)
        _inject(w, E['read'](c, CANARY if c_early is None else CANARY[len(CANARY) // 2:]))
        cw = b''.join(x[2] for x in w.out[m_out:] if x[0] == 'write' and x[1] is c)
        rs, err = ref_http.parse_responses(cw)
        obs['canary'] = bool(len(probe.seen) - m_seen == 1 and probe.seen[-1] == ('GET', '/canary') and err is None and len(rs) == 1
                             and rs[0].status == 200 and rs[0].body == PROBE_BODY)
        if not obs['canary']:
            obs['canary_detail'] = {'written': cw[:300], 'requests': probe.seen[m_seen:]}
        _inject(w, E['disconnect'](c))
    except Unsettled:
        raise
    except BaseException as e:  # noqa: BLE001
        obs['canary'] = False
        obs['canary_detail'] = {'error': repr(e), 'tb': traceback.format_exc(limit=10)}
    finally:
        c.close()
    # residue
    if obs['disconnected']:
        obs['residue_scan'] = scan_component(http, s)
        wr = weakref.ref(s)
        s.close()
        del s, c
        w.out.clear()
        w.exceptions.clear()
        step = out = None  # noqa: F841
        gc.collect()
        o = wr()
        if o is None:
            obs['reachable'] = None
        else:
            names = []
            for r in gc.get_referrers(o):
                if isinstance(r, dict):
                    owner = [type(x).__name__ + '.' + k for x in gc.get_referrers(r) if hasattr(x, '__dict__') and vars(x) is not r
                             for k, v in vars(x).items() if v is r]
                    names.append('dict key/value in %s' % (owner or ['?']))
                elif type(r).__name__ != 'frame':
                    names.append(type(r).__name__)
            obs['reachable'] = sorted(set(names)) or ['?']
            del o
    else:
        s.close()
    return obs


def exit_path(obs):
    """How the connection's last message ended, judged from outside: 'dispatched' | '400' | 'closed-silently' | 'none' | '<status>'"""
    if not obs['steps']:
        return 'none'
    last = obs['steps'][-1]
    if not (last['written'] or last['closes']):
        return 'none'       # the last read left the component waiting for more data
    if not last['written']:
        return 'closed-silently'
    m = re.match(rb'HTTP/\d\.\d (\d{3}) ', last['written'])
    code = m.group(1).decode() if m else '???'
    if last['requests'] and code == '200':
        return 'dispatched'
    return code


def method_of(case):
    """How the answer to the hostile message has to be read: a response to HEAD carries no body whatever its Content-Length says."""
    # (leading CR / LF / blanks / other control bytes in front of the method: a server that skips them has understood HEAD as well)
    d = b''.join(case['chunks'][case.get('hostile_from', 0):]).lstrip(bytes(range(0x21)))
    # (also 'HEAD' followed by some other separator-like byte: a server that splits the request line on any white space has understood HEAD)
    return 'HEAD' if d[:4] == b'HEAD' and len(d) > 4 and not d[4:5].isalnum() else 'GET'


def parse_answer(case, written, closed):
    """(responses, error, method used).  A message that starts with 'HEAD ' may be answered like a HEAD (no body) or - when it is so
    broken that the server cannot be held to have understood its method - like any other request (with the body the Content-Length
    announces); both framings are tried, the first that yields complete responses counts."""
    first = method_of(case)
    rs, err = ref_http.parse_responses(written, methods=(first,), closed=closed)
    if err is None or first == 'GET':
        return rs, err, first
    rs2, err2 = ref_http.parse_responses(written, methods=('GET',), closed=closed)
    return (rs2, err2, 'GET') if err2 is None else (rs, err, first)


def judge(case, obs):
    """Obligations of the property on one observation: list of (clause, ok, detail, dedup)."""
    res = []
    meth = method_of(case)
    cls = case.get('class', '?')
    res.append(('LOOP_SURVIVES', obs['crash'] is None and obs.get('canary') is True,
                {'crash': obs['crash'], 'canary': obs.get('canary'), 'canary_detail': obs.get('canary_detail')}, cls))
    complete = obs['delivered'] == len(case['chunks'])
    any_request = False
    statuses = []
    msg_from = case.get('hostile_from', 0)      # index of the read with which the message being received began
    h0 = case.get('hostile_from', 0)   # reads before this index carried an ordinary request the connection was kept alive after
    for i, st in enumerate(obs['steps']):
        if i < h0:
            continue
        any_request = any_request or st['requests'] > 0
        if st['closes'] and not st['written'] and not st['requests']:
            # "or simply closes (TLS handshake on a plain-text port)": closing without a word is reserved for connections whose message
            # starts like a TLS / SSLv2 record (first byte 0x16, or the high bit set) - everything else is waited for or answered
            head = b''.join(case['chunks'][msg_from:i + 1])[:1]
            res.append(('BARE_CLOSE_ONLY_FOR_TLS', bool(head) and (head[0] == 0x16 or head[0] & 0x80 == 0x80),
                        {'read': i, 'message_began_with': b''.join(case['chunks'][msg_from:i + 1])[:24], 'this_read_began_with': case['chunks'][i][:12]}, cls))
        if st['written'] or st['closes']:
            msg_from = i + 1
        detail = None
        rs, err, meth = parse_answer(case, st['written'], bool(st['closes']))
        if err is not None or len(rs) > 1 or st['requests'] > 1 or st['foreign']:
            detail = {'read': i, 'written': st['written'][:400], 'parse_error': err, 'responses': len(rs), 'requests': st['requests'],
                      'writes_or_closes_on_other_connections': st['foreign']}
        elif rs:
            d = ref_http.crosscheck(st['written'], meth, closed=bool(st['closes']))
            if d:
                detail = {'read': i, 'written': st['written'][:400], 'http.client': d}
        if st['written'] or st['closes'] or st['requests']:
            res.append(('ONE_VALID_RESPONSE_PER_READ', detail is None, detail, '%s:%s' % (cls, (err or ['count'])[0])))
        if detail is None and rs:
            r = rs[0]
            statuses.append(r.status)
            if r.announces_close():
                res.append(('CLOSE_FOLLOWS_ANNOUNCEMENT', st['closes'] >= 1,
                            {'read': i, 'status': r.status, 'connection': r.get_all(b'Connection'), 'version': list(r.version), 'closes': st['closes']},
                            '%s:%d' % (cls, r.status)))
            if st['requests'] and r.status in (400, 505):
                res.append(('REJECTED_NOT_DISPATCHED', False, {'read': i, 'status': r.status, 'requests': st['requests']}, cls))
        if st['requests']:
            # RFC 9110 5.5 / RFC 7230 3.2.4: a field value with NUL, CR or LF (an obs-fold included) is either rejected or has each of them
            # replaced by SP before it is interpreted; a dispatched request that still carries them was neither rejected nor repaired
            res.append(('DISPATCHED_HEADERS_CLEAN', not st['dirty_headers'], {'read': i, 'header_fields_with_NUL_CR_LF': st['dirty_headers'][:4]}, cls))
        if st['exceptions']:
            # an exception event is the loop's report of a failed handler: the connection must be answered or closed, not left hanging
            res.append(('EXCEPTION_ANSWERED_OR_CLOSED', bool(st['written'] or st['closes']),
                        {'read': i, 'exceptions': st['exceptions'], 'written': st['written'][:200], 'closes': st['closes']},
                        '%s:%s' % (cls, st['exceptions'][0])))
    if case.get('incomplete_wellformed'):
        wrote = any(st['written'] or st['closes'] for st in obs['steps'])
        res.append(('INCOMPLETE_MESSAGE_WAITS', not any_request and not wrote,
                    {'class': cls, 'prefix_len': len(b''.join(case['chunks'])), 'message_len': len(case['orig']), 'request_events': any_request,
                     'answered_or_closed': wrote, 'statuses': statuses}, 'incomplete'))
    if case.get('expect') == 'reject' and complete:
        res.append(('REJECTED_NOT_DISPATCHED', not any_request, {'class': cls, 'request_events': any_request, 'statuses': statuses}, cls))
        bad = [s for s in statuses if not 400 <= s <= 599]
        # the message is complete and cannot become valid: "waiting for more data" is not an answer to it
        res.append(('ERROR_STATUS_FOR_REJECTED', not bad and (bool(statuses) or obs['closed']),
                    {'class': cls, 'statuses': statuses, 'closed': obs['closed']}, cls))
    follow = case.get('then_good')
    if follow is not None and obs['delivered'] > follow and obs['steps'][follow - 1]['written'] and case.get('app') != 'failing':
        # the component answered the hostile message and did NOT close: the connection it kept must still serve a good request
        st = obs['steps'][follow]
        rs, err = ref_http.parse_responses(st['written'], closed=bool(st['closes']))
        res.append(('KEPT_OPEN_CONNECTION_STILL_SERVES', bool(st['requests'] == 1 and err is None and len(rs) == 1 and rs[0].status == 200),
                    {'read': follow, 'requests': st['requests'], 'written': st['written'][:200], 'earlier_statuses': statuses[:-1]}, cls))
    if case.get('expect') == 'accept' and complete and len(case['chunks']) == 1:   # segmented delivery is C13's subject
        from checks.c13 import NOT_NORMAL
        data_ = b''.join(bytes(c) for c in case['chunks'])
        target = data_.split(b' ', 2)[1] if data_.count(b' ') >= 2 else b''
        if NOT_NORMAL.search(target) and not any_request and statuses and all(s in (301, 302, 307, 308) for s in statuses):
            pass     # a target that is not in the server's normal form: it redirects by itself instead of asking the application
        else:
            want = [500] if case.get('app') == 'failing' else [200]     # (an application that fails is answered for, once)
            res.append(('WELL_FORMED_DISPATCHED', any_request and statuses == want, {'statuses': statuses, 'request_events': any_request, 'expected': want}, cls))
    if obs['disconnected'] and obs['crash'] is None:
        clean = not obs['residue_scan'] and obs['reachable'] is None
        res.append(('NO_STATE_AFTER_DISCONNECT', clean, {'containers_holding_the_socket': obs['residue_scan'],
                                                          'socket_still_reachable_via': obs['reachable'], 'exit_path': exit_path(obs),
                                                          'written_after_disconnect': obs.get('after_disconnect')},
                    '%s:%s' % (cls if exit_path(obs) in ('dispatched', '400', 'closed-silently') else '-', exit_path(obs))))
    return res


def explained(case, depth=2):
    """True iff the case satisfies every obligation, or every obligation it fails is attributable to a known finding whose own
    twin is explained (a twin that neutralises one trigger may still show another, independently established one)."""
    obs = observe(case)
    for clause, ok, _detail, _dedup in judge(case, obs):
        if ok:
            continue
        if depth <= 0 or not any(explained(t, depth - 1) for _key, t in twin_cases(case, obs, clause)):
            return False
    return True


_BASELINE = {}


def leak_signature():
    """Where the socket of the known finding's own witness (disconnect in the middle of the header block) is retained, measured on
    the tree under test: a residue is a candidate for that finding only if it sits in no other place."""
    if 'holders' not in _BASELINE:
        o = observe({'chunks': [b'GET / HTTP/1.1\r\nHo'], 'disconnect_after': 1})
        _BASELINE['holders'] = set(o.get('residue_scan') or [])
    return _BASELINE['holders']


def twin_cases(case, obs, clause):
    """Known-finding candidates for a failed clause: (key, the same case with ONLY that trigger neutralised)."""
    out = []
    cls = case.get('class', '')
    orig = case.get('orig')
    if clause == 'NO_STATE_AFTER_DISCONNECT' and orig and exit_path(obs) not in ('dispatched', '400', 'closed-silently') \
            and set(obs.get('residue_scan') or ['?']) <= leak_signature():
        # trigger: the last message ended on a path that does not drop the parser (still waiting / 500 / 505 / 301).
        # twin: the well-formed original of this mutation, delivered completely, then the disconnect.
        out.append((K_LEAK, {'chunks': [orig], 'disconnect_after': 1, 'expect': 'accept', 'class': 'twin-of-' + cls}))
    if clause in ('REJECTED_NOT_DISPATCHED', 'ERROR_STATUS_FOR_REJECTED') and cls.startswith('clen-int-accepts') and orig:
        # trigger: a Content-Length value int() accepts but 1*DIGIT does not.  twin: the same request with its valid length.
        out.append((K_CLEN, dict(case, chunks=[orig], expect='accept', orig=None, disconnect_after=case.get('disconnect_after') and 1,
                                 **{'class': 'twin-of-' + cls})))
    if clause == 'ONE_VALID_RESPONSE_PER_READ':
        data = b''.join(case['chunks'])
        fixed = OTHER_MAJOR.sub(rb'\1HTTP/1.1\r\n', data)
        if fixed != data and len(fixed) == len(data):
            # trigger: a request line naming another major version.  twin: the same bytes, reads and disconnect point with
            # HTTP/1.1 in that request line (same length, so every cut keeps its place).
            chunks, pos = [], 0
            for c in case['chunks']:
                chunks.append(fixed[pos:pos + len(c)])
                pos += len(c)
            out.append((K_505, dict(case, chunks=chunks, expect='any', **{'class': 'twin-of-' + cls})))
        errs = [parse_answer(case, st['written'], bool(st['closes']))[1] for st in obs['steps']]
        if any(e and "field value of b'Location'" in e[1] for e in errs):
            # trigger: control bytes (raw, or produced by the parser's unicode_escape decoding of backslash sequences) in the
            # request are copied into the Location header of the path-guard redirect.  twin: the same reads with every control
            # byte and backslash replaced by a letter (same length).
            clean = [CTL_OR_BACKSLASH.sub(b'x', c) for c in case['chunks']]
            if clean != case['chunks']:
                out.append((K_LOC, dict(case, chunks=clean, expect='any', **{'class': 'twin-of-' + cls})))
    return out


def twins(case, obs, clause):
    return [(key, (lambda t=t: explained(t, 1))) for key, t in twin_cases(case, obs, clause)]


def evaluate(b, case):
    try:
        obs = observe(case)
    except Unsettled as e:
        b.inconclusive_because('tree did not settle: %s' % e)
        return
    cls = case.get('class', '?')
    data = b''.join(case['chunks'])
    complete = obs['delivered'] == len(case['chunks'])
    wellformed = case.get('expect') == 'accept'
    b.case(case, nontrivial=bool(obs['steps']) and not (wellformed and complete))
    # coverage
    b.reached('class.' + cls)
    if method_of(case) == 'HEAD':
        b.reached('hostile_message_asked_with_HEAD')
    if len(case['chunks']) > 1 and obs['delivered'] > 1:
        b.reached('multi_read_cases')
    if case.get('neighbour'):
        b.reached('another_connection_mid_request_while_the_hostile_message_arrives')
    if case.get('hostile_from') and obs['delivered'] > case['hostile_from']:
        b.reached('hostile_message_on_a_connection_that_served_a_request_before')
        if case.get('after_served_request'):
            b.reached('served_request_was_followed_by_stray_bytes_in_its_read')
    if case.get('truncated'):
        b.reached('truncation_cases')
        if case.get('incomplete_wellformed') and b'\r\n0;last\r\nX-' in data:
            b.reached('message_cut_inside_its_trailer_section')
    if case.get('expect') == 'reject' and complete:
        b.reached('reject_class_complete')
    path = exit_path(obs)
    for st in obs['steps']:
        if st['exceptions']:
            b.reached('exception_event_seen')
        if st['closes'] and not st['written']:
            b.reached('closed_without_response')
        m = re.match(rb'HTTP/\d\.\d (\d{3}) ', st['written'])
        if m:
            code = int(m.group(1))
            b.reached('status_%d%s' % (code, '_dispatched' if code == 200 and st['requests'] else ''))
            if code == 500 and st['requests'] and case.get('app') == 'failing':
                b.reached('application_failed_on_a_dispatched_request')
            rs, err, _m = parse_answer(case, st['written'], bool(st['closes']))
            if err is None and len(rs) == 1:
                b.reached('responses_parsed_by_reference')
                b.reached('responses_crosschecked_http_client')   # judge() runs ref_http.crosscheck on exactly these
            else:
                b.reached('responses_refused_by_reference')
    if path == 'none' and obs['steps']:
        b.reached('waited_no_response')
        if obs['disconnected'] and data:
            b.reached('disconnect_mid_message')
    elif obs['disconnected']:
        b.reached('disconnect_after_response')
    if obs.get('canary'):
        b.reached('canary_answered')
    if obs['disconnected']:
        b.reached('residue_scans')
        b.reached('weakref_checks')
    seen_fail = set()
    for clause, ok, detail, dedup in judge(case, obs):
        if ok:
            b.ok(clause)
            if clause == 'CLOSE_FOLLOWS_ANNOUNCEMENT':
                b.reached('announced_close_followed_by_close')
            continue
        if clause in seen_fail:
            continue
        seen_fail.add(clause)
        b.fail(case, clause, detail, known=twins(case, obs, clause), dedup=dedup)


# ------------------------------------------------------------------------------------------------
# mutations
# ------------------------------------------------------------------------------------------------
def split_head(msg):
    i = msg.find(b'\r\n')
    j = msg.find(b'\r\n\r\n')
    return msg[:i], msg[i + 2:j].split(b'\r\n') if j > i else [], msg[j + 4:]


def join_head(line, headers, body):
    return line + b'\r\n' + b''.join(h + b'\r\n' for h in headers) + b'\r\n' + body


def set_header(msg, name, value):
    """replace (or add) header ``name``; value None removes it"""
    line, hs, body = split_head(msg)
    hs = [h for h in hs if not h.lower().startswith(name.lower() + b':')]
    if value is not None:
        hs.append(name + b': ' + value)
    return join_head(line, hs, body)


TLS_HELLO = (b'\x16\x03\x01\x00\xc4\x01\x00\x00\xc0\x03\x03' + bytes(range(32)) + b'\x20' + bytes(range(32, 64)) +
             b'\x00\x08\x13\x02\x13\x03\x13\x01\x00\xff\x01\x00\x00\x6f\x00\x0b\x00\x04\x03\x00\x01\x02\x00\x0a\x00\x0c\x00\x0a\x00\x1d\x00\x17')


def mutations(rng, orig):
    """(class, expect, bytes) for one random mutation of the well-formed request ``orig``."""
    line, hs, body = split_head(orig)
    method, target, version = line.split(b' ')
    k = rng.randrange(41)
    if k == 0:
        return 'firstline-tokens', 'reject', join_head(rng.choice([method + b' ' + target, method, b'GARBAGE', b'', target + b' ' + version]), hs, body)
    if k == 1:
        return 'version-invalid', 'reject', join_head(b' '.join([method, target, rng.choice([b'HTTP/x.y', b'HTTP/1', b'FTP/1.1', b'HTTP/1.', b'HTTP/.1', b'http/1.1', b'HTTP/1.1.1'])]), hs, body)
    if k == 2:
        return 'version-other-major', 'reject', join_head(b' '.join([method, target, rng.choice([b'HTTP/2.0', b'HTTP/0.9', b'HTTP/3.0', b'HTTP/9.9', b'HTTP/2.1'])]), hs, body)
    if k == 3:
        return 'host-missing', 'reject', join_head(b' '.join([method, target, b'HTTP/1.1']), [h for h in hs if not h.lower().startswith(b'host')], body)
    if k == 4:
        hs2 = list(hs)
        hs2.insert(rng.randint(0, len(hs2)), rng.choice([b'NoColonHere', b'just some words', b'X-Broken']))
        return 'header-no-colon', 'reject', join_head(line, hs2, body)
    if k == 5:
        hs2 = list(hs)
        hs2.insert(rng.randint(0, len(hs2)), rng.choice([b'Bad Name: x', b'Bad\x01Name: x', b'Bad(Name): x', b'Bad"Name: x', b'Bad\x7fName: x']))
        return 'header-name-invalid', 'reject', join_head(line, hs2, body)
    if k == 6:
        return 'clen-non-numeric', 'reject', set_header(orig, b'Content-Length', rng.choice([b'abc', b'1e3', b'0x10', b'12abc', b'3 3', b'1.0', b'\xb2']))
    if k == 7:
        n = len(body)
        return 'clen-int-accepts-negative', 'reject', set_header(set_header(orig, b'Transfer-Encoding', None), b'Content-Length', rng.choice([b'-1', b'-5', b'-%d' % (n + 1)]))
    if k == 8:
        b2 = body if not any(h.lower().startswith(b'transfer-encoding') for h in hs) else b'abc'
        m = set_header(set_header(join_head(line, hs, b2), b'Transfer-Encoding', None), b'Content-Length', rng.choice([b'+%d', b'0_%d', b'+0%d']) % len(b2))
        return 'clen-int-accepts-signed-or-underscore', 'reject', m
    if k == 9:
        line2, hs2, _ = split_head(set_header(set_header(orig, b'Transfer-Encoding', None), b'Content-Length', b'3'))
        hs2.append(b'Content-Length: 4')
        return 'clen-conflicting', 'reject', join_head(line2, hs2, b'abcd')
    if k == 10:
        return 'clen-huge', 'any', set_header(orig, b'Content-Length', b'9' * rng.choice([12, 30, 400]))
    if k == 11:
        m = set_header(set_header(orig, b'Content-Length', b'3'), b'Transfer-Encoding', b'chunked')
        line2, hs2, _ = split_head(m)
        return 'clen-and-chunked', 'any', join_head(line2, hs2, b'3\r\nabc\r\n0\r\n\r\n')
    if k == 12:
        m = set_header(set_header(orig, b'Content-Length', None), b'Transfer-Encoding', b'chunked')
        line2, hs2, _ = split_head(m)
        return 'chunk-size-bad', 'any', join_head(line2, hs2, rng.choice([b'zz', b'-3', b'', b'0x3', b'3 3', b'f' * 40]) + b'\r\nabc\r\n0\r\n\r\n')
    if k == 13:
        m = set_header(set_header(orig, b'Content-Length', None), b'Transfer-Encoding', b'chunked')
        line2, hs2, _ = split_head(m)
        return 'chunk-terminator-missing', 'any', join_head(line2, hs2, rng.choice([b'3\r\nabcXX0\r\n\r\n', b'3\r\nabc0\r\n\r\n', b'3\r\nabcd\r\n0\r\n\r\n']))
    if k == 14:
        esc = rng.choice([b'\\x', b'\\xZ1', b'\\u12', b'\\U0011', b'\\N{nope}', b'\\', b'\\777', b'\\N'])
        where = rng.randrange(3)
        if where == 0:
            return 'escape-in-target', 'any', join_head(b' '.join([method, target + esc, version]), hs, body)
        if where == 1:
            return 'escape-in-header-value', 'any', join_head(line, hs + [b'X-Esc: a' + esc], body)
        return 'escape-in-header-name', 'any', join_head(line, hs + [b'X' + esc + b': v'], body)
    if k == 15:
        data = bytearray(orig)
        for _ in range(rng.randint(1, 3)):
            data.insert(rng.randrange(len(data) + 1), rng.choice([0, 0, 1, 0x7f, 0x80, 0xff, 0xc3, 0x0b, 0x0c]))
        return 'nul-or-control-bytes', 'any', bytes(data)
    if k == 16:
        hello = TLS_HELLO[:1] + bytes([3, rng.randrange(5)]) + TLS_HELLO[3:]
        return 'tls-client-hello', 'any', hello + (b'' if rng.random() < 0.6 else rng.choice([b'\r\n', b'\r\n\r\n', orig]))
    if k == 17:
        n = rng.randint(10, 300)
        return 'sslv2-hello', 'any', bytes([0x80 | (n >> 8), n & 0xff, 1, 0, 2]) + bytes(rng.randrange(256) for _ in range(rng.randint(0, 60)))
    if k == 18:
        size = rng.choice([9000, 70000, 200000])
        return 'header-oversized', 'any', join_head(line, hs + [b'X-Big: ' + b'a' * size], body)
    if k == 19:
        return 'header-many', 'any', join_head(line, hs + [b'X-%d: v' % i for i in range(rng.choice([300, 1500]))], body)
    if k == 20:
        cut = rng.randrange(0, len(orig))
        return 'truncated', 'any', orig[:cut]
    if k == 21:
        data = bytearray(orig)
        for _ in range(rng.randint(1, 4)):
            data[rng.randrange(len(data))] = rng.randrange(256)
        return 'byte-flips', 'any', bytes(data)
    if k == 22:
        data = bytearray(orig)
        i = rng.randrange(len(data))
        del data[i:i + rng.randint(1, 6)]
        return 'bytes-deleted', 'any', bytes(data)
    if k == 23:
        return 'bare-lf', 'any', orig.replace(b'\r\n', b'\n')
    if k == 24:
        return 'host-port-invalid', 'any', set_header(orig, b'Host', rng.choice([b'h:abc', b'h:', b'h:-1', b'h:99999999999', b':', b'[::1', b'h:8000:1']))
    if k == 25:
        m = set_header(orig, b'Content-Encoding', rng.choice([b'gzip', b'deflate']))
        return 'content-encoding-garbage', 'any', set_header(join_head(*split_head(m)[:2], b'not compressed'), b'Content-Length', b'14')
    if k == 26:
        return 'target-odd', 'any', join_head(b' '.join([method, rng.choice([b'*', b'/../../etc/passwd', b'//x', b'/%zz', b'/%', b'http://h/x', b'/a#frag', b'/\xc3\xa9', b'/' + b'a' * 20000, b'?', b'x']), version]), hs, body)
    if k == 27:
        return 'cookie-garbage', 'any', join_head(line, hs + [b'Cookie: ' + rng.choice([b'a=b; \x01=,;;=', b'=', b';;;', b'a="', b'a=b=c; d', b'\xff=\xfe'])], body)
    if k == 28:
        return 'method-odd', 'any', join_head(b' '.join([rng.choice([b'get', b'A' * 30, b'G@T', b'G\x00T', b'', b'$', b'1']), target, version]), hs, body)
    if k == 29:
        return 'transfer-coding-unknown', 'any', set_header(set_header(orig, b'Content-Length', None), b'Transfer-Encoding', rng.choice([b'gzip', b'identity', b'chunked, gzip', b'xchunked', b'']))
    if k == 30:
        return 'garbage', 'any', bytes(rng.randrange(256) for _ in range(rng.randint(1, 80))) + rng.choice([b'', b'\r\n', b'\r\n\r\n'])
    if k == 31:
        return 'leading-empty-lines', 'any', rng.choice([b'\r\n', b'\r\n\r\n', b'\n', b'\r']) + orig
    if k == 32:
        return 'trailing-garbage', 'any', orig + rng.choice([b'\r\n', b'XYZ', b'\x00', b'GET', orig[:10]])
    if k == 33:
        host = rng.choice([b'e\x01ample.org', b'h\x7f', b'h\\x02', b'\x1fh:80', b'h\x0b'])
        return 'host-control-byte', 'any', join_head(b' '.join([method, rng.choice([b'x', target[1:] or b'y', b'//' + target, target]), version]),
                                                     [h for h in hs if not h.lower().startswith(b'host')] + [b'Host: ' + host], body)
    if k in (34, 35):
        # obsolete line folding: legal to reject, legal to unfold - but never to hand CR LF on to the application
        ws = rng.choice([b' ', b'\t', b'  \t '])
        hs2 = list(hs)
        if rng.random() < 0.4:
            hs2 = [h + b'\r\n' + ws + b'x' if h.lower().startswith(b'host') else h for h in hs2]
        else:
            hs2.insert(rng.randint(0, len(hs2)), b'X-Fold: first\r\n' + ws + b'second' + (b'\r\n' + ws + b'third' if rng.random() < 0.4 else b''))
        return 'header-folded', 'any', join_head(line, hs2, body)
    if k in (36, 37):
        # hostile bytes on the continuation line of a folded field (raw, or as the backslash escapes the parser decodes)
        bad = rng.choice([b'\x00', b'\x01', b'\x7f', b'\x0b', b'\r', b'a\rb', b'\\x00', b'\\r\\n', b'\\x0a', b'\\x7f'])
        ws = rng.choice([b' ', b'\t'])
        cont = b'\r\n' + ws + rng.choice([b'', b'y']) + bad + rng.choice([b'', b'z'])
        hs2 = list(hs)
        if rng.random() < 0.5:
            tgt = rng.choice([b'x', target[1:] or b'y', target])
            hs2 = [h + cont if h.lower().startswith(b'host') else h for h in hs2]
            return 'folded-control-byte', 'any', join_head(b' '.join([method, tgt, version]), hs2, body)
        hs2.insert(rng.randint(0, len(hs2)), b'X-Fold: first' + cont)
        return 'folded-control-byte', 'any', join_head(line, hs2, body)
    if k in (38, 39):
        hs2 = list(hs)
        hs2.insert(rng.randint(0, len(hs2)), b'X-Obs: ' + rng.choice([b'caf\xc3\xa9', b'\xe9', b'a \xe2\x82\xac b', b'\xff\xfe', b'\x80'])) 
        return 'obs-text-in-header-value', 'accept', join_head(line, hs2, body)
    return 'well-formed', 'accept', orig


def cut_randomly(rng, data, maxparts=3):
    if len(data) < 2:
        return [data]
    high = [i for i in range(1, len(data)) if data[i] >= 0x80]
    if high and rng.random() < 0.3:
        # a read that begins with a byte >= 0x80 (what the first bytes of an SSLv2 hello look like)
        c = rng.choice(high)
        return [data[:c], data[c:]]
    k = rng.choice([1, 1, 2, 2, 3][:2 * maxparts - 1])
    cuts = sorted(rng.sample(range(1, len(data)), min(k - 1, len(data) - 1)))
    out, prev = [], 0
    for c in cuts:
        out.append(data[prev:c])
        prev = c
    out.append(data[prev:])
    return out


def make_case(cls, expect, data, orig, chunks=None, disconnect_after='end', **extra):
    chunks = chunks if chunks is not None else [data]
    case = {'class': cls, 'expect': expect, 'chunks': chunks, 'orig': orig,
            'disconnect_after': len(chunks) if disconnect_after == 'end' else disconnect_after}
    case.update(extra)
    return case


def corpus_cases():
    cases = []
    b_head_seen = []
    H11_ = b'GET / HTTP/1.1\r\nHost: h\r\n\r\n'
    for good, tag in ((GOOD, 'get'), (GOOD_POST, 'post'), (GOOD_CHUNKED, 'chunked'), (GOOD_TRAILERS, 'trailers'), (GOOD_GZIP, 'gzip')):
        cases.append(make_case('well-formed', 'accept', good, good))
        cases.append(make_case('well-formed', 'accept', good, good, disconnect_after=None))
        # the application fails on what it is handed: answered for exactly once (in one read, in two reads, kept open)
        cases.append(make_case('well-formed', 'accept', good, good, app='failing'))
        cases.append(make_case('well-formed', 'accept', good, good, app='failing', disconnect_after=None))
        cases.append(make_case('well-formed', 'any', good, good, chunks=[good[:len(good) // 2], good[len(good) // 2:]], app='failing'))
        # truncation at every offset, then disconnect; a proper prefix of a well-formed message is an incomplete message:
        # the only admissible reaction is to wait for the rest
        for cut in range(0, len(good)):
            cases.append(make_case('truncated', 'any', good[:cut], good, truncated=True, incomplete_wellformed=True))
        # ... and in two reads with a disconnect after the first or the second
        for cut in range(1, len(good), 7):
            cases.append(make_case('well-formed', 'accept', good, good, chunks=[good[:cut], good[cut:]]))
            cases.append(make_case('truncated', 'any', good[:cut], good, chunks=[good[:cut], good[cut:]], disconnect_after=1, truncated=True))
    # a hostile message on a connection that has already served a request - whose read carried a few bytes more than the request (a stray
    # CRLF after a body-less request is explicitly allowed for by RFC 7230 3.5) - is a hostile message like any other
    for tail in (b'', b'\r\n', b'\n', b'\r\n\r\n'):
        for first in (GOOD, GOOD_POST):
            for cls, bad in (('nul-in-line', b'\x00\x00GARBAGE\r\n\r\n'), ('bad-header-block', b'GET / HTTP/1.1\r\nHost: h\r\nNoColonHere\r\n\r\n'),
                             ('sslv2-hello', b'\x80\x2e\x01\x00\x02' + bytes(range(41))), ('bad-version', b'GET / HTTP/9.9\r\nHost: h\r\n\r\n')):
                cases.append(make_case(cls, 'reject' if cls != 'sslv2-hello' else 'any', bad, bad, chunks=[first + tail, bad], hostile_from=1, after_served_request=len(tail)))
    # field values with bytes >= 0x80, whole and cut at EVERY offset (a read may begin with such a byte)
    cases.append(make_case('well-formed', 'accept', GOOD_OBS, GOOD_OBS))
    for cut in range(1, len(GOOD_OBS)):
        cases.append(make_case('well-formed', 'accept', GOOD_OBS, GOOD_OBS, chunks=[GOOD_OBS[:cut], GOOD_OBS[cut:]]))
    for bad in (b'GET / HTTP/1.1\r\nHost: h\r\nNoColon \xe2\x80\xa8 here\r\n\r\n', b'GET /\xc3\xa9 HTTP/1.1\r\nHost: h\r\nContent-Length: \xb2\r\n\r\n'):
        for cut in range(1, len(bad)):
            if bad[cut] >= 0x80:
                cases.append(make_case('high-byte-starts-a-read', 'any', bad, H11_, chunks=[bad[:cut], bad[cut:]]))
    H11 = b'GET / HTTP/1.1\r\nHost: h\r\n\r\n'
    fixed = [
        ('firstline-tokens', 'reject', b'GARBAGE\r\n\r\n'),
        ('firstline-tokens', 'reject', b'GET /\r\nHost: h\r\n\r\n'),
        ('firstline-tokens', 'reject', b'\r\n'),
        ('version-invalid', 'reject', b'GET / HTTP/x.y\r\nHost: h\r\n\r\n'),
        ('version-invalid', 'reject', b'GET / FTP/1.1\r\nHost: h\r\n\r\n'),
        ('version-other-major', 'reject', b'GET / HTTP/2.0\r\nHost: h\r\n\r\n'),
        ('version-other-major', 'reject', b'GET / HTTP/0.9\r\nHost: h\r\n\r\n'),
        ('version-other-major', 'reject', b'POST / HTTP/3.0\r\nHost: h\r\nContent-Length: 3\r\n\r\nabc'),
        ('host-missing', 'reject', b'GET / HTTP/1.1\r\n\r\n'),
        ('host-missing', 'reject', b'GET / HTTP/1.1\r\nX-A: 1\r\n\r\n'),
        ('header-no-colon', 'reject', b'GET / HTTP/1.1\r\nHost: h\r\nNoColonHere\r\n\r\n'),
        ('header-name-invalid', 'reject', b'GET / HTTP/1.1\r\nHost: h\r\nBad Name: x\r\n\r\n'),
        ('clen-non-numeric', 'reject', b'POST / HTTP/1.1\r\nHost: h\r\nContent-Length: abc\r\n\r\n'),
        ('clen-int-accepts-negative', 'reject', b'POST / HTTP/1.1\r\nHost: h\r\nContent-Length: -5\r\n\r\n'),
        ('clen-int-accepts-signed-or-underscore', 'reject', b'POST / HTTP/1.1\r\nHost: h\r\nContent-Length: +3\r\n\r\nabc'),
        ('clen-int-accepts-signed-or-underscore', 'reject', b'POST / HTTP/1.1\r\nHost: h\r\nContent-Length: 1_0\r\n\r\n0123456789'),
        ('clen-conflicting', 'reject', b'POST / HTTP/1.1\r\nHost: h\r\nContent-Length: 3\r\nContent-Length: 4\r\n\r\nabcd'),
        ('clen-huge', 'any', b'POST / HTTP/1.1\r\nHost: h\r\nContent-Length: 99999999999999999999999\r\n\r\nabc'),
        ('clen-and-chunked', 'any', b'POST / HTTP/1.1\r\nHost: h\r\nContent-Length: 3\r\nTransfer-Encoding: chunked\r\n\r\n3\r\nabc\r\n0\r\n\r\n'),
        ('chunk-size-bad', 'any', b'POST / HTTP/1.1\r\nHost: h\r\nTransfer-Encoding: chunked\r\n\r\nzz\r\nabc\r\n0\r\n\r\n'),
        ('chunk-size-bad', 'any', b'POST / HTTP/1.1\r\nHost: h\r\nTransfer-Encoding: chunked\r\n\r\n-3\r\nabc\r\n0\r\n\r\n'),
        ('chunk-terminator-missing', 'any', b'POST / HTTP/1.1\r\nHost: h\r\nTransfer-Encoding: chunked\r\n\r\n3\r\nabcXX0\r\n\r\n'),
        ('escape-in-target', 'any', b'GET /\\x HTTP/1.1\r\nHost: h\r\n\r\n'),
        ('escape-in-target', 'any', b'GET /\\N{nope} HTTP/1.1\r\nHost: h\r\n\r\n'),
        ('escape-in-header-value', 'any', b'GET / HTTP/1.1\r\nHost: h\r\nX: \\x\r\n\r\n'),
        ('escape-in-header-name', 'any', b'GET / HTTP/1.1\r\nHost: h\r\nX\\u12: v\r\n\r\n'),
        ('nul-or-control-bytes', 'any', b'GET /\x00 HTTP/1.1\r\nHost: h\r\n\r\n'),
        ('nul-or-control-bytes', 'any', b'GET / HTTP/1.1\r\nHost: h\r\nX: a\x00b\r\n\r\n'),
        ('nul-or-control-bytes', 'any', b'GET /\xc3\xa9 HTTP/1.1\r\nHost: h\r\n\r\n'),
        ('tls-client-hello', 'any', TLS_HELLO),
        ('tls-client-hello', 'any', TLS_HELLO + b'\r\n\r\n'),
        ('sslv2-hello', 'any', b'\x80\x2e\x01\x00\x02' + bytes(40)),
        ('header-oversized', 'any', b'GET / HTTP/1.1\r\nHost: h\r\nX-Big: ' + b'a' * 100000 + b'\r\n\r\n'),
        ('header-many', 'any', b'GET / HTTP/1.1\r\nHost: h\r\n' + b''.join(b'X-%d: v\r\n' % i for i in range(2000)) + b'\r\n'),
        ('bare-lf', 'any', b'GET / HTTP/1.1\nHost: h\n\n'),
        ('host-port-invalid', 'any', b'GET / HTTP/1.1\r\nHost: h:abc\r\n\r\n'),
        ('content-encoding-garbage', 'any', b'POST / HTTP/1.1\r\nHost: h\r\nContent-Encoding: gzip\r\nContent-Length: 5\r\n\r\nabcde'),
        ('content-encoding-garbage', 'any', b'POST / HTTP/1.1\r\nHost: h\r\nContent-Encoding: deflate\r\nContent-Length: 5\r\n\r\nabcde'),
        ('target-odd', 'any', b'OPTIONS * HTTP/1.1\r\nHost: h\r\n\r\n'),
        ('target-odd', 'any', b'GET /../../etc/passwd HTTP/1.1\r\nHost: h\r\n\r\n'),
        ('target-odd', 'any', b'GET /a#frag HTTP/1.1\r\nHost: h\r\n\r\n'),
        ('cookie-garbage', 'any', b'GET / HTTP/1.1\r\nHost: h\r\nCookie: a=b; \x01=,;;=\r\n\r\n'),
        ('method-odd', 'any', b'A' * 30 + b' / HTTP/1.1\r\nHost: h\r\n\r\n'),
        ('transfer-coding-unknown', 'any', b'POST / HTTP/1.1\r\nHost: h\r\nTransfer-Encoding: gzip\r\n\r\n'),
        ('version-minor-high', 'any', b'GET / HTTP/1.9\r\nHost: h\r\n\r\n'),
        ('garbage', 'any', b''),
        ('host-control-byte', 'any', b'GET x HTTP/1.1\r\nHost: e\x01ample.org\r\n\r\n'),
        ('host-control-byte', 'any', b'GET x HTTP/1.1\r\nHost: h\\x7f\r\n\r\n'),
        ('host-control-byte', 'any', b'GET /ok HTTP/1.1\r\nHost: e\x01ample.org\r\n\r\n'),
        ('header-folded', 'any', b'GET / HTTP/1.1\r\nHost: h\r\nX-Fold: a\r\n b\r\n\tc\r\n\r\n'),
        ('header-folded', 'any', b'GET / HTTP/1.1\r\nHost: h\r\n x\r\n\r\n'),
        ('folded-control-byte', 'any', b'GET / HTTP/1.1\r\nHost: h\r\nX-Fold: a\r\n b\x00c\r\n\r\n'),
        ('folded-control-byte', 'any', b'GET / HTTP/1.1\r\nHost: h\r\nX-Fold: a\r\n\tb\rc\r\n\r\n'),
        ('folded-control-byte', 'any', b'GET / HTTP/1.1\r\nHost: h\r\nX-Fold: a\r\n b\\x00c\r\n\r\n'),
        ('folded-control-byte', 'any', b'GET / HTTP/1.1\r\nHost: h\r\nX-Fold: a\r\n b\\r\\nX-Injected: 1\r\n\r\n'),
        ('folded-control-byte', 'any', b'GET x HTTP/1.1\r\nHost: h\r\n \\r\\nSet-Cookie: a=b\r\n\r\n'),
        ('folded-control-byte', 'any', b'GET x HTTP/1.1\r\nHost: h\r\n e\x01vil\r\n\r\n'),
        ('version-echo-400', 'any', b'GET / HTTP/9.1\r\nHost: h\r\nX: a\x00b\r\n\r\n'),
        ('version-echo-400', 'any', b'GET / HTTP/1.7\r\nHost: h\r\nX: a\x01b\r\n\r\n'),
        ('version-echo-400', 'any', b'POST / HTTP/3.0\r\nHost: h\r\nContent-Length: abc\r\n\r\n'),
        ('version-echo-400', 'any', b'GET / HTTP/2.0\r\nNoColonHere\r\n\r\n'),
        ('trailing-garbage', 'any', GOOD + b'XYZ'),
        ('http10-no-keepalive', 'accept', b'GET /old HTTP/1.0\r\n\r\n'),
        ('connection-close', 'accept', b'GET /bye HTTP/1.1\r\nHost: h\r\nConnection: close\r\n\r\n'),
    ]
    # the same hostile messages asked with HEAD (answers to HEAD go through their own branch of the response path)
    fixed += [(cls, expect, b'HEAD' + data[data.index(b' '):]) for cls, expect, data in list(fixed)
              if data.startswith((b'GET ', b'POST ')) and cls not in ('well-formed', 'http10-no-keepalive', 'connection-close')]
    for cls, expect, data in fixed:
        if data.startswith(b'HEAD '):
            b_head_seen.append(1)
        orig = GOOD_POST if data.startswith(b'POST') else H11
        if expect == 'accept':
            orig = data
        cases.append(make_case(cls, expect, data, orig))                                   # one read, disconnect at the end
        cases.append(make_case(cls, expect, data, orig, disconnect_after=None))           # connection left open
        if len(data) > 4:
            mid = data.find(b'\r\n') + 2 if b'\r\n' in data[:-2] else len(data) // 2
            mid = min(max(mid, 1), len(data) - 1)
            cases.append(make_case(cls, expect, data, orig, chunks=[data[:mid], data[mid:]]))                      # two reads
            cases.append(make_case(cls, 'any', data[:mid], orig, chunks=[data[:mid], data[mid:]], disconnect_after=1, truncated=True))
            he = data.find(b'\r\n\r\n')
            if 0 < he < len(data) - 4:
                cases.append(make_case(cls, expect, data, orig, chunks=[data[:he + 4], data[he + 4:]]))
    # hostile second message on a kept-alive connection, and a request after a rejected one (never delivered: closed)
    cases.append(make_case('second-message-garbage', 'any', b'', GOOD, chunks=[GOOD, b'GARBAGE\r\n\r\n']))
    cases.append(make_case('second-message-other-major', 'any', b'', GOOD, chunks=[GOOD, b'GET / HTTP/2.0\r\nHost: h\r\n\r\n']))
    for cls, first in (('garbage', b'GARBAGE\r\n\r\n'), ('version-other-major', b'GET / HTTP/2.0\r\nHost: h\r\n\r\n'),
                       ('clen-non-numeric', b'POST / HTTP/1.1\r\nHost: h\r\nContent-Length: abc\r\n\r\n'),
                       ('host-missing', b'GET / HTTP/1.1\r\n\r\n'), ('escape-in-target', b'GET /\\x HTTP/1.1\r\nHost: h\r\n\r\n'),
                       ('target-odd', b'GET /../x HTTP/1.1\r\nHost: h\r\n\r\n'), ('host-port-invalid', b'GET / HTTP/1.1\r\nHost: h:abc\r\n\r\n'),
                       ('content-encoding-garbage', b'POST / HTTP/1.1\r\nHost: h\r\nContent-Encoding: gzip\r\nContent-Length: 5\r\n\r\nabcde')):
        cases.append(make_case('then-good-after-' + cls, 'any', b'', GOOD, chunks=[first, GOOD], then_good=1))
    # every seventh case once more while another connection of the server is in the middle of a request of its own
    cases += [dict(copy.deepcopy(c), neighbour=True) for c in cases[::7]]
    return cases


def gen_case(rng):
    from checks import c13
    orig = c13.gen_request(rng, keepalive=rng.random() < 0.7, allow_head=True)
    if rng.random() < 0.3:
        orig = rng.choice([GOOD, GOOD_POST, GOOD_CHUNKED])
    cls, expect, data = mutations(rng, orig)
    chunks = cut_randomly(rng, data)
    if expect != 'accept' and len(chunks) == 1 and cls not in ('truncated', 'trailing-garbage') and rng.random() < 0.25:
        return make_case('then-good-after-' + cls, 'any', data, orig, chunks=[data, GOOD], then_good=1)
    r = rng.random()
    if r < 0.55:
        disc = len(chunks)
    elif r < 0.8:
        disc = rng.randint(0, len(chunks))
    else:
        disc = None
    extra = {}
    if cls == 'truncated' or (disc is not None and disc < len(chunks)):
        extra['truncated'] = True
    if rng.random() < 0.15:
        extra['app'] = 'failing'      # whatever is dispatched makes the application fail: that, too, is answered exactly once
    elif expect == 'reject' and disc == len(chunks) and not extra.get('truncated') and rng.random() < 0.2:
        # the connection has served an ordinary request before (whose read carried some stray bytes more, or not)
        tail = rng.choice([b'', b'\r\n', b'\r\n', b'\n', b'\r\n\r\n'])
        return make_case(cls, expect, data, orig, chunks=[rng.choice([GOOD, GOOD_POST]) + tail] + chunks, disconnect_after=disc + 1,
                         hostile_from=1, after_served_request=len(tail))
    if rng.random() < 0.2:
        extra['neighbour'] = True
    return make_case(cls, expect, data, orig if expect != 'accept' else data, chunks=chunks, disconnect_after=disc, **extra)


# ------------------------------------------------------------------------------------------------
def plan(tier, seed):
    if tier == 'quick':
        return ([{'kind': 'corpus', 'part': i, 'of': 4} for i in range(4)] +
                [{'kind': 'random', 'seed': seed * 1000 + i, 'n': 220} for i in range(12)])
    return ([{'kind': 'corpus', 'part': i, 'of': 8} for i in range(8)] +
            [{'kind': 'truncate-all', 'seed': seed * 100000 + 500 + i, 'n': 40} for i in range(8)] +
            [{'kind': 'random', 'seed': seed * 100000 + i, 'n': 2500} for i in range(48)])


def run_batch(spec):
    import circuits  # noqa: F401  (the real package under test)
    b = Batch(PROPERTY)
    if spec['kind'] == 'corpus':
        if spec['part'] == 0:
            n, problems = ref_http.selftest()
            b.reached('ref_parser_selftest_checks', n)
            for p in problems:
                b.inconclusive_because('reference parser self-test: ' + p)
        for i, case in enumerate(corpus_cases()):
            if i % spec['of'] == spec['part']:
                evaluate(b, case)
    elif spec['kind'] == 'truncate-all':
        # truncation at EVERY offset of generated well-formed requests, followed by disconnect
        from checks import c13
        rng = random.Random(spec['seed'])
        for _ in range(spec['n']):
            orig = c13.gen_request(rng, keepalive=True, allow_head=False)
            for cut in range(len(orig)):
                evaluate(b, make_case('truncated', 'any', orig[:cut], orig, truncated=True))
    else:
        rng = random.Random(spec['seed'])
        for _ in range(spec['n']):
            evaluate(b, gen_case(rng))
    return b.result()


def run_replay(case):
    import circuits  # noqa: F401
    b = Batch(PROPERTY)
    evaluate(b, unjson(case))
    return b.result()


ENGINE = 'event-injection'
TECHNIQUE = ('runtime monitoring: hostile byte strings injected as read events into the real web.http.HTTP component; written bytes '
             'parsed by an independent strict response parser and http.client; request events, exception events, close events '
             'and post-disconnect residue (container scan + gc reachability) observed')
LEVEL_TEXT = ('Every case executes the real parser and HTTP component on a mutated request (one mutation class per anchor branch plus '
              'generic fuzzing, truncation at every offset of corpus requests, disconnect at every read boundary). Checked per read: the '
              'loop survives (canary answered), the bytes written are nothing or one complete valid response, an announced close is '
              'followed by a close event, rejected messages are not dispatched, reject-class inputs get 4xx/5xx, and after the '
              'disconnect nothing in the component holds the connection. Held means: on the inputs run; it is sampling of the input language.')
LEVEL_NOTE = ('Trusted: the injection harness in place of the socket layer, the strict reference response parser (self-tested against '
              'http.client every run), the classification of which mutation classes must be rejected (stated in ASSUMPTIONS; lenient '
              'acceptance of other malformed input is not counted as a violation). TLS is only exercised as bytes on a plain-text port.')

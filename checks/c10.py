"""C10 - pollers report exactly the registered-and-ready descriptors; Select, Poll and EPoll agree.

Two harnesses (DESIGN.md 2.5 and section 4, C10), both single-threaded and stepped with tick(0):

* raw: the real poller components under a root with a few source components; a pool of non-blocking
  AF_UNIX socket pairs placed at fixed fd numbers; histories of registration operations and peer
  actions; after every step ONE zero-timeout iteration through the real generate_events path, the
  emitted _read/_write/_disconnect/_error events captured by a catch-all observer.  Oracle: a set
  model (R, W, target) kept by the harness + readiness measured by the harness itself
  (select.select and a mask-0 poll for hang-up) immediately before and after the iteration.
* dialogue: a real circuits.net.sockets.TCPServer on 127.0.0.1:0 over each poller, scripted real
  loopback peers; the per-connection stream connect, read(bytes)*, disconnect must be the same
  under the three pollers (and be what the peer did).
"""
import os
import random
import select
import socket
import struct
import time

from vlib.batch import Batch, BudgetExceeded, cpu_budget, unjson

PROPERTY = 'C10'
LEVEL = 'exploration'
RULE = ('fixed corpus (one history per mechanism: remove one role while the other stays, re-add after discard with another owner, full '
        'send buffer, hang-up with reader / writer only, half close, reset, discard-then-close, close-then-discard, close without discard, '
        'each with and without reuse of the fd number, int descriptors, several ready sockets in one iteration) + seeded random histories '
        '(10-50 steps) over 3-5 socket pairs of addReader/addWriter/removeReader/removeWriter/discard and peer actions, every history run '
        'under Select, Poll and EPoll; + scripted peer dialogues (1-3 connections: connect, send, half-close, close, abort) against a real '
        'TCPServer over each poller; non-trivial (raw) = at least one completeness obligation, at least one silence obligation on a socket '
        'that was ready-but-not-registered or registered-but-not-ready, and at least one removeReader/removeWriter/discard; non-trivial '
        '(dialogue) = at least one connection delivered bytes and was disconnected; distinct = hash of the declarative history')
ASSUMPTIONS = [
    'readiness is measured by the harness with select.select([s],[s],[],0) and hang-up with a mask-0 poll() immediately before and after the iteration; '
    'an iteration whose two measurements differ is not judged (never happens with AF_UNIX pairs driven from one thread)',
    'a role is only added when the descriptor is not currently registered in that role, and a descriptor has one registering component per registration epoch '
    '(double registration and two owners at once are not defined by the statement)',
    'for a hung-up (POLLHUP/POLLERR) registered descriptor Poll/EPoll may emit _disconnect instead of _read/_write; the model then drops the descriptor (auto-discard)',
    'a descriptor closed WITHOUT discard may be dropped by the poller with one _disconnect notification (Poll: POLLNVAL); any _read/_write for it, or any event '
    'after that notification, is a failure.  Select spends one empty iteration on removing such descriptors (preen): completeness is judged on the next one',
    'the only operation performed on a closed descriptor is discard',
    'dialogue harness: peer data and the end of the peer stream are only made pending together against a server that never writes (an echoing server that '
    'writes to a reset peer closes early under every poller, which is not the pollers\' doing)',
    'dialogue harness: the checking thread waits (bounded wall clock, expiry = inconclusive) until its own select() sees the kernel state the peer action '
    'produces, then ticks a bounded number of times; verdicts are on the resulting streams only',
]
REQUIRED = ['closed_number_reused_and_registered_again_by_number', 'second_component_registers_the_other_role', 'one_of_two_registering_components_left', 'event_addressed_to_the_component_that_remained', 'descriptor_registered_by_number', 'descriptor_number_zero_registered', 'closed_object_number_reused_by_new_registration', 'intfd_control_events_seen', 'change_inside_select_call', 'inselect_control_event_seen', 'iter_select', 'iter_poll', 'iter_epoll', 'reader_ready_emitted', 'writer_ready_emitted', 'registered_not_ready_silent',
            'ready_not_registered_silent', 'remove_one_role_other_stays', 'readd_after_discard', 'owner_changed_after_discard',
            'send_buffer_full_not_writable', 'writable_again_after_drain', 'peer_closed_hup', 'disconnect_instead_of_write', 'half_close_read',
            'peer_reset', 'discard_then_close', 'close_then_discard', 'close_without_discard', 'fd_number_reused',
            'silent_for_closed_while_number_reused_and_ready', 'reused_fd_registered_again', 'select_preen', 'poll_nval_disconnect',
            'int_fd_registered', 'several_events_one_iteration', 'dlg_connect', 'dlg_read', 'dlg_disconnect', 'dlg_half_close', 'dlg_abort',
            'dlg_echo_complete', 'dlg_two_connections_one_round', 'dlg_data_and_end_pending_together']
REQUIRED_OBLIGATIONS = ['SOUND_READ', 'SOUND_WRITE', 'ADDRESS', 'COMPLETE_READ', 'COMPLETE_WRITE', 'SILENT_WHEN_NOT_DUE', 'NO_EVENT_AFTER_DISCARD',
                        'NO_EVENT_FOR_CLOSED', 'AGREE', 'INTERCHANGEABLE', 'STREAM_MATCHES_PEER']
WORKER_TIMEOUT = {'quick': 300, 'thorough': 1800}
ENGINE = 'real-loopback-stepping'
TECHNIQUE = ('runtime monitoring: real pollers stepped one zero-timeout iteration at a time over real socket pairs, emitted events vs. a set model + '
             'independently measured readiness; differential run of a real TCPServer over the three pollers')
LEVEL_TEXT = ('Random and fixed histories of registration operations and peer actions over a pool of real AF_UNIX socket pairs, each run under Select, '
              'Poll and EPoll. After every step one generate_events iteration is run and every emitted _read/_write/_disconnect must be justified by '
              'the registration model and by readiness measured by the harness (soundness, addressing), every registered-and-ready descriptor must '
              'have been reported (completeness), discarded and closed descriptors must stay silent also after their number is reused, and the '
              'three pollers must emit the same sets. Scripted loopback dialogues against a real TCPServer must give the same per-connection '
              'stream under the three pollers. Held = no obligation failed on the histories run.')
LEVEL_NOTE = ('Trusted: the harness-side select()/poll() measurement and the set model. Histories are sampled. KQueue, TLS and UDP are not exercised; '
              'AF_UNIX pairs in the raw harness, TCP loopback in the dialogue harness.')

AMBIGUOUS = '<two components hold registrations of this descriptor>'
KEY_A = 'poll.discard-after-close-keeps-registration'
KEY_B = 'poll.closed-without-discard-fd-reuse'

POLLERS = ['Select', 'Poll', 'EPoll']
NSRC = 3
FD_BASE = 300
HUNG = select.POLLHUP | select.POLLERR | select.POLLNVAL


class HarnessError(Exception):
    """the harness could not set the case up (environment): inconclusive, never a violation"""


# ------------------------------------------------------------------------------------------------
# raw harness
# ------------------------------------------------------------------------------------------------
class Slot:
    def __init__(self, idx):
        self.idx = idx
        self.sock = None
        self.peer = None
        self.prev = None        # the closed socket of the previous generation
        self.gen = -1
        self.k = 0              # number index (only changes in the fresh-number twin)
        self.closed = True
        self.peer_closed = True
        self.lfd = None


class RawWorld:
    def __init__(self, pname, case):
        from circuits import BaseComponent, Manager, handler
        from circuits.core import pollers
        from vlib.driver import mark_running
        self.pname = pname
        self.case = case
        self.as_int = bool(case.get('as_int'))
        self.fresh = bool(case.get('fresh_numbers'))
        world = self
        self.obs = []

        class Observer(BaseComponent):
            channel = '*'

            @handler('_read', '_write', '_disconnect', '_error', channel='*', priority=1000)
            def _on_poller_event(self, event, *args):
                world.obs.append((event.name, args[0] if args else None, tuple(event.channels)))

            @handler('exception', channel='*', priority=1000)
            def _on_exception(self, event, *args, **kwargs):
                world.obs.append(('exception', repr(args[:2])[:300], ()))

        class Source(BaseComponent):
            pass

        self.root = Manager()
        self.poller = getattr(pollers, pname)().register(self.root)
        Observer().register(self.root)
        self.srcs = [Source(channel='c%d' % i).register(self.root) for i in range(NSRC)]
        for _ in range(20):
            if not len(self.root):
                break
            self.root.flush()
        mark_running(self.root)
        self.obs.clear()

        # the model
        self.R = set()
        self.W = set()
        self.target = {}
        self.own = {}         # (key, 'R'|'W') -> channel of the component that made that registration
        self.took_over = set()
        self.latest = {}      # key -> role ('R'|'W') registered most recently
        self.discarded = set()      # discarded and not registered since
        self.zombies = set()        # closed while registered, never discarded
        self.gone = set()           # closed descriptors the poller was allowed to drop (notification seen / preened)
        self.dead = set()           # every closed local descriptor
        self.info = {}              # key -> (slot, gen)
        self.item_of = {}           # key -> item handed to the poller
        self.keep = []
        self.slots = [Slot(i) for i in range(case['npairs'])]
        self.marks = set()
        self.problems = []
        self.counts = {}
        self.trigger_a = False
        self.trigger_b = False
        self.iters = []             # per iteration: dict(emitted, ready, taint)
        self.tainted = set()
        self.was_discarded = {}     # key -> last owner before discard
        self.n_iter = 0
        self.n_complete = 0
        self.n_neg = 0
        self.n_role_change = 0
        self.step_desc = None
        for sl in self.slots:
            self._open(sl, 0)

    # -- descriptors ------------------------------------------------------------------------------
    @staticmethod
    def _place(sock, number):
        try:
            os.fstat(number)
        except OSError:
            pass
        else:
            raise HarnessError('fd number %d is not free' % number)
        os.dup2(sock.fileno(), number)
        new = socket.socket(fileno=number)
        sock.close()
        return new

    def _open(self, sl, nbytes):
        a, b = socket.socketpair()
        if self.fresh and sl.gen >= 0:
            sl.k += 1
        lfd = FD_BASE + 2 * sl.idx + 40 * sl.k
        if lfd + 1 >= 1000:
            raise HarnessError('too many fresh numbers')
        if sl.peer is not None and not sl.peer_closed:
            sl.peer.close()
        sl.prev = sl.sock
        sl.sock = self._place(a, lfd)
        sl.peer = self._place(b, FD_BASE + 2 * sl.idx + 1 + 40 * sl.k) if (sl.gen < 0 or self.fresh) else self._place(b, sl.peer_number)
        sl.peer_number = sl.peer.fileno()
        sl.lfd = lfd
        sl.gen += 1
        sl.closed = False
        sl.peer_closed = False
        sl.sock.setblocking(False)
        sl.peer.setblocking(False)
        sl.sock.setsockopt(socket.SOL_SOCKET, socket.SO_SNDBUF, 2048)
        self.keep.append(sl.sock)
        k = self.key(self.item(sl))
        self.info[k] = (sl.idx, sl.gen)
        if self.as_int:
            # an int names whatever is open at that number: a new epoch of the same key
            self.dead.discard(k)
        if nbytes:
            sl.peer.send(b'r' * nbytes)

    def item(self, sl, prev=False):
        if self.as_int:
            return sl.lfd
        return sl.prev if prev else sl.sock

    @staticmethod
    def key(item):
        return ('fd', item) if isinstance(item, int) else ('obj', id(item))

    def describe(self, k):
        if k in self.info:
            return 's%d.g%d' % self.info[k]
        return 'unknown:%r' % (k,)

    # -- operations ---------------------------------------------------------------------------------
    def do(self, op):
        name = op[0]
        if name == 'seq':
            for sub in op[1]:
                self.do(sub)
            return
        if name == 'nop':
            return
        sl = self.slots[op[1]]
        p = self.poller
        if name in ('addR', 'addW'):
            if sl.closed:
                return
            item = self.item(sl)
            k = self.key(item)
            role = self.R if name == 'addR' else self.W
            if k in role:
                return          # double registration is outside the statement
            chan = 'c%d' % op[2]
            if k in self.target and self.target[k] != chan:
                # another component registers the descriptor for the other role while the first one's registration stands: while both
                # stand, whose channel an event goes to is not stated; once one of them has left it is the remaining component's
                self.marks.add('second_component_registers_the_other_role')
            if k in self.discarded:
                self.marks.add('readd_after_discard')
                if self.was_discarded.get(k) not in (None, chan):
                    self.marks.add('owner_changed_after_discard')
            if sl.gen > 0 and not self.fresh:
                self.marks.add('reused_fd_registered_again')
            if self.as_int:
                self.marks.add('int_fd_registered')
            self.item_of[k] = item
            (p.addReader if name == 'addR' else p.addWriter)(self.srcs[op[2]], item)
            role.add(k)
            self.own[(k, name[-1])] = chan
            self.latest[k] = name[-1]
            self._retarget(k)
            self.discarded.discard(k)
            self.gone.discard(k)
        elif name in ('rmR', 'rmW'):
            if sl.closed:
                return
            item = self.item(sl)
            k = self.key(item)
            role, other = (self.R, self.W) if name == 'rmR' else (self.W, self.R)
            if k in role:
                self.n_role_change += 1
                if k in other:
                    self.marks.add('remove_one_role_other_stays')
            (p.removeReader if name == 'rmR' else p.removeWriter)(item)
            role.discard(k)
            if self.own.pop((k, name[-1]), None) is not None and self.target.get(k) == AMBIGUOUS:
                self.marks.add('one_of_two_registering_components_left')
                self.took_over.add(k)
            self._retarget(k)
        elif name in ('discard', 'discard_old'):
            if name == 'discard_old':
                if sl.prev is None or self.as_int:
                    return
                item = self.item(sl, prev=True)
            else:
                item = self.item(sl)
            k = self.key(item)
            if k not in self.info:
                return
            if k in self.dead:
                if k in self.zombies:
                    self.trigger_a = True
                    self.marks.add('close_then_discard')
            if k in self.R or k in self.W:
                self.n_role_change += 1
            if k in self.target:
                self.was_discarded[k] = self.target[k]
            p.discard(item)
            self.R.discard(k)
            self.W.discard(k)
            self._retarget(k)
            self.took_over.discard(k)
            self.zombies.discard(k)
            self.gone.discard(k)
            self.discarded.add(k)
        elif name == 'close':
            if sl.closed:
                return
            k = self.key(self.item(sl))
            if k in self.R or k in self.W:
                self.zombies.add(k)
                self.marks.add('close_without_discard')
                self.R.discard(k)
                self.W.discard(k)
            elif k in self.discarded:
                self.marks.add('discard_then_close')
            self.dead.add(k)
            sl.sock.close()
            sl.closed = True
        elif name == 'reopen':
            if not sl.closed:
                return
            oldk = self.key(self.item(sl))
            if self.as_int and oldk in self.zombies:
                raise HarnessError('int descriptor closed without discard cannot be reopened')
            if not self.fresh:
                self.marks.add('fd_number_reused')
            self._open(sl, op[2] if len(op) > 2 else 0)
        elif name == 'peer_send':
            if sl.closed or sl.peer_closed:
                return
            try:
                sl.peer.send(b'p' * op[2])
            except OSError:
                pass
        elif name == 'consume':
            if sl.closed:
                return
            for _ in range(1000):
                try:
                    if not sl.sock.recv(65536):
                        break
                except OSError:
                    break
        elif name == 'peer_close':
            if sl.peer_closed:
                return
            sl.peer.close()
            sl.peer_closed = True
        elif name == 'peer_abort':
            if sl.peer_closed:
                return
            if not sl.closed:
                try:
                    sl.sock.send(b'!')      # unread data at close => the local end sees ECONNRESET
                except OSError:
                    pass
            sl.peer.close()
            sl.peer_closed = True
        elif name == 'peer_shutwr':
            if sl.peer_closed:
                return
            try:
                sl.peer.shutdown(socket.SHUT_WR)
            except OSError:
                pass
        elif name == 'fill':
            if sl.closed:
                return
            for _ in range(100000):
                try:
                    sl.sock.send(b'f' * 512)
                except OSError:
                    break
        elif name == 'drain':
            if sl.peer_closed:
                return
            for _ in range(100000):
                try:
                    if not sl.peer.recv(65536):
                        break
                except OSError:
                    break
        else:
            raise HarnessError('unknown op %r' % (op,))

    # -- one iteration -------------------------------------------------------------------------------
    def measure(self):
        out = {}
        pp = select.poll()
        live = []
        for sl in self.slots:
            if sl.closed:
                continue
            pp.register(sl.sock.fileno(), 0)
            live.append(sl)
        flags = dict(pp.poll(0))
        for sl in live:
            r, w, _ = select.select([sl.sock], [sl.sock], [], 0)
            out[self.key(self.item(sl))] = (bool(r), bool(w), bool(flags.get(sl.sock.fileno(), 0) & HUNG))
        return out

    def _run_iteration(self):
        pre = self.measure()
        self.obs.clear()
        self.root.tick(0)
        for _ in range(30):
            if not len(self.root):
                break
            self.root.flush()
        else:
            raise HarnessError('the tree does not settle after an iteration')
        post = self.measure()
        events = list(self.obs)
        self.obs.clear()
        return pre, post, events

    def iterate(self):
        if any(self._number_reused(k) for k in self.zombies):
            self.trigger_b = True       # an iteration runs while a closed, never discarded descriptor's number is in use again
        pre, post, events = self._run_iteration()
        if self.pname == 'Select' and self.zombies and not events:
            # Select removes closed descriptors in an iteration of its own (_preenDescriptors) and reports nothing in it
            self.marks.add('select_preen')
            self.gone |= self.zombies
            self.zombies.clear()
            pre, post, events = self._run_iteration()
        self.n_iter += 1
        if pre != post:
            self.marks.add('unstable_readiness')
            self.iters.append(None)
            for name, item, chans in events:      # keep the model in step with auto-discards
                if name == '_disconnect':
                    k = self.key(item)
                    self.R.discard(k), self.W.discard(k), self._retarget(k)
            return
        self.evaluate(events, pre)

    def _retarget(self, k):
        """expected address of events for k: the channel of the component holding its registration(s); AMBIGUOUS while two hold one each"""
        if k not in self.R:
            self.own.pop((k, 'R'), None)
        if k not in self.W:
            self.own.pop((k, 'W'), None)
        owners = {self.own[x] for x in ((k, 'R'), (k, 'W')) if x in self.own}
        if not owners:
            self.target.pop(k, None)
        else:
            self.target[k] = owners.pop() if len(owners) == 1 else AMBIGUOUS

    def ok(self, clause, n=1):
        self.counts[clause] = self.counts.get(clause, 0) + n

    def problem(self, clause, what, **detail):
        self.counts[clause] = self.counts.get(clause, 0) + 1
        d = {'poller': self.pname, 'iteration': self.n_iter, 'after_step': self.step_desc, 'what': what}
        d.update(detail)
        self.problems.append((clause, d))

    def evaluate(self, events, ready):
        R0, W0, T0 = set(self.R), set(self.W), dict(self.target)
        emitted = set()
        legit_disc = set()
        norm = set()
        for name, item, chans in events:
            if name == 'exception':
                self.problem('POLLER_RAISED', 'an exception event was fired during the iteration', exception=item)
                continue
            k = self.key(item)
            if k not in self.info:
                self.problem('SOUND_OBJECT', 'event for an object the harness never handed to the poller', event=name, object=repr(item)[:120])
                continue
            emitted.add((name, k))
            who = self.describe(k)
            closed_obj = k in self.dead
            if name == '_error':
                self.problem('SOUND_ERROR_EVENT', '_error emitted', descriptor=who)
                continue
            if name == '_disconnect':
                if k in self.discarded:
                    self.problem('NO_EVENT_AFTER_DISCARD', '_disconnect for a discarded descriptor', descriptor=who, closed=closed_obj,
                                 channels=repr(chans)[:120])
                elif k in self.zombies:
                    # the poller noticed a descriptor that was closed behind its back and drops it
                    self.zombies.discard(k)
                    self.gone.add(k)
                    self.marks.add('poll_nval_disconnect')
                elif closed_obj:
                    self.problem('NO_EVENT_FOR_CLOSED', '_disconnect for a closed descriptor that was already dropped', descriptor=who)
                elif k in R0 or k in W0:
                    if ready.get(k, (0, 0, 0))[2] and self.pname != 'Select':
                        legit_disc.add(k)
                        self.marks.add('peer_closed_hup')
                        if k in W0 and k not in R0:
                            self.marks.add('disconnect_instead_of_write')
                    else:
                        self.problem('DISCONNECT_ONLY_IF_HUNG_UP', '_disconnect for a registered descriptor that is not hung up', descriptor=who,
                                     ready=ready.get(k))
                    if T0.get(k) is not None and T0[k] != AMBIGUOUS and chans != (T0[k],):
                        self.problem('ADDRESS', '_disconnect addressed to the wrong channel', descriptor=who, channels=repr(chans)[:120], expected=T0[k])
                    self.R.discard(k), self.W.discard(k), self._retarget(k)   # auto-discard
                    self.tainted.add(k)
                else:
                    self.problem('SOUND_REGISTERED', '_disconnect for a descriptor that is not registered', descriptor=who)
                continue
            role0, clause, idx = (R0, 'SOUND_READ', 0) if name == '_read' else (W0, 'SOUND_WRITE', 1)
            if k in self.discarded:
                self.problem('NO_EVENT_AFTER_DISCARD', '%s for a discarded descriptor' % name, descriptor=who, closed=closed_obj,
                             number_reused=self._number_reused(k), channels=repr(chans)[:120])
            elif closed_obj:
                self.problem('NO_EVENT_FOR_CLOSED', '%s for a closed descriptor' % name, descriptor=who, number_reused=self._number_reused(k),
                             channels=repr(chans)[:120])
            elif k not in role0:
                self.problem(clause, '%s for a descriptor not registered in that role' % name, descriptor=who, registered_read=k in R0,
                             registered_write=k in W0)
            elif not ready.get(k, (0, 0, 0))[idx]:
                self.problem(clause, '%s for a registered descriptor that is not ready' % name, descriptor=who, ready=ready.get(k))
            else:
                self.ok(clause)
                self.marks.add('reader_ready_emitted' if idx == 0 else 'writer_ready_emitted')
                if T0.get(k) == AMBIGUOUS:
                    # two components hold one role each.  The role registered last: its events go to the component that registered it.  The
                    # other role's events are not asserted (a descriptor has ONE target channel in this design - _disconnect and _error
                    # have no role -, and it is the last registrant's)
                    self.marks.add('event_while_two_components_hold_registrations')
                    role = 'R' if name == '_read' else 'W'
                    if self.latest.get(k) == role and (k, role) in self.own:
                        if chans == (self.own[(k, role)],):
                            self.ok('ADDRESS')
                        else:
                            self.problem('ADDRESS', '%s addressed to the wrong channel (two components hold registrations; this role was registered last)' % name,
                                         descriptor=who, channels=repr(chans)[:120], expected=self.own[(k, role)])
                elif chans == (T0.get(k),):
                    self.ok('ADDRESS')
                    if k in self.took_over:
                        self.marks.add('event_addressed_to_the_component_that_remained')
                else:
                    self.problem('ADDRESS', '%s addressed to the wrong channel' % name, descriptor=who, channels=repr(chans)[:120], expected=T0.get(k))
                norm.add((name,) + self.info[k] + (chans[0] if chans and isinstance(chans[0], str) else repr(chans)[:60],))
        # completeness and silence
        for k, (rd, wr, hung) in ready.items():
            who = self.describe(k)
            if hung:
                self.tainted.add(k)
            for role0, flag, ev, clause in ((R0, rd, '_read', 'COMPLETE_READ'), (W0, wr, '_write', 'COMPLETE_WRITE')):
                if k in role0 and flag:
                    if (ev, k) in emitted or k in legit_disc:
                        self.ok(clause)
                        self.n_complete += 1
                    else:
                        self.problem(clause, 'registered and ready but no %s in this iteration' % ev, descriptor=who, ready=(rd, wr, hung),
                                     emitted=sorted('%s(%s)' % (n, self.describe(x)) for n, x in emitted))
                elif (ev, k) not in emitted:
                    self.ok('SILENT_WHEN_NOT_DUE')
                    if k in role0:
                        self.marks.add('registered_not_ready_silent')
                        self.n_neg += 1
                        if ev == '_write':
                            self.marks.add('send_buffer_full_not_writable')
                    elif flag:
                        self.marks.add('ready_not_registered_silent')
                        self.n_neg += 1
        if len([e for e in emitted if e[0] in ('_read', '_write')]) >= 3:
            self.marks.add('several_events_one_iteration')
        for k in self.discarded:
            if not any(x == k for _, x in emitted):
                self.ok('NO_EVENT_AFTER_DISCARD')
        for k in self.dead:
            if k in self.discarded:
                continue
            if not any(x == k for _, x in emitted):
                self.ok('NO_EVENT_FOR_CLOSED')
        for k in self.dead:
            if self._number_reused(k) and not any(x == k for _, x in emitted):
                sl = self.slots[self.info[k][0]]
                cur = ready.get(self.key(self.item(sl)))
                if cur and (cur[0] or cur[1]) and not self.as_int:
                    self.marks.add('silent_for_closed_while_number_reused_and_ready')
        self.iters.append({'norm': norm, 'ready': {self.info[k]: v[:2] for k, v in ready.items()},
                           'taint': {self.info[k] for k in self.tainted | self.zombies | self.gone | (self.dead - self.discarded)}})

    def _number_reused(self, k):
        if self.fresh or k not in self.info or k[0] != 'obj':
            return False
        idx, gen = self.info[k]
        sl = self.slots[idx]
        return sl.gen > gen and not sl.closed

    def close(self):
        for sl in self.slots:
            for s in (sl.sock, sl.peer):
                try:
                    if s is not None:
                        s.close()
                except OSError:
                    pass
        p = self.poller
        for fd in (p._ctrl_recv, p._ctrl_send):
            try:
                os.close(fd) if isinstance(fd, int) else fd.close()
            except OSError:
                pass
        inner = getattr(p, '_poller', None)
        if hasattr(inner, 'close'):
            try:
                inner.close()
            except OSError:
                pass


def run_raw(case):
    """Run one history under every poller.  Returns (problems, info)."""
    worlds = []
    problems = []
    counts = {}
    marks = set()
    info = {'trigger_a': False, 'trigger_b': False}
    n_complete = n_neg = n_role = 0
    for pname in case.get('pollers', POLLERS):
        w = RawWorld(pname, case)
        worlds.append(w)
        try:
            w.iterate()
            for i, op in enumerate(case['ops']):
                w.step_desc = [i, op]
                before = w.measure()
                try:
                    w.do(op)
                except HarnessError:
                    raise
                except Exception as e:
                    w.problem('OPERATION_RAISED', 'a registration operation raised', error=repr(e)[:300])
                after = w.measure()
                for k, (rd, wr, hung) in after.items():
                    if k in before:
                        if not before[k][1] and wr and k in w.W:
                            w.marks.add('writable_again_after_drain')
                        if hung and not before[k][2] and op[0] == 'peer_abort':
                            w.marks.add('peer_reset')
                    if op[0] == 'peer_shutwr' and rd and not hung and k in w.R and w.info[k][0] == op[1]:
                        w.marks.add('half_close_read')
                w.iterate()
        finally:
            w.close()
        marks |= w.marks
        marks.add('iter_' + pname.lower())
        problems.extend(w.problems)
        for c, n in w.counts.items():
            counts[c] = counts.get(c, 0) + n
        info['trigger_a'] |= w.trigger_a
        info['trigger_b'] |= w.trigger_b
        n_complete += w.n_complete
        n_neg += w.n_neg
        n_role += w.n_role_change
    # the three pollers agree (sets per iteration, hang-up latitude and dropped descriptors excluded)
    if len(worlds) > 1:
        n = min(len(w.iters) for w in worlds)
        taint = set()
        for i in range(n):
            its = [w.iters[i] for w in worlds]
            if any(it is None for it in its):
                continue
            for it in its:
                taint |= it['taint']
            descs = set(its[0]['ready'])
            for d in descs:
                if d in taint or any(it['ready'].get(d) != its[0]['ready'][d] for it in its):
                    continue
                sets = [frozenset(e for e in it['norm'] if e[1:3] == d) for it in its]
                if all(s == sets[0] for s in sets):
                    counts['AGREE'] = counts.get('AGREE', 0) + 1
                else:
                    counts['AGREE'] = counts.get('AGREE', 0) + 1
                    problems.append(('AGREE', {'iteration': i, 'descriptor': 's%d.g%d' % d,
                                               'emitted': {w.pname: sorted(map(list, s)) for w, s in zip(worlds, sets)}}))
    info.update(marks=marks, counts=counts, nontrivial=bool(n_complete and n_neg and n_role))
    return problems, info


# -- twins (known findings) ------------------------------------------------------------------------
def neutralise_a(case):
    """the same history with every discard of an already closed descriptor moved in front of its close"""
    flat = []          # [group, op]
    for g, op in enumerate(case['ops']):
        for sub in (op[1] if op[0] == 'seq' else [op]):
            flat.append([g, list(sub)])
        if op[0] == 'seq' and not op[1]:
            flat.append([g, ['nop']])
    closed_at = {}
    old_closed_at = {}
    inserts = {}       # position -> ops to insert before
    for pos, (g, op) in enumerate(flat):
        if op[0] == 'close' and op[1] not in closed_at:
            closed_at[op[1]] = pos
        elif op[0] == 'reopen' and op[1] in closed_at:
            old_closed_at[op[1]] = closed_at.pop(op[1])
        elif op[0] == 'discard' and op[1] in closed_at:
            inserts.setdefault(closed_at[op[1]], []).append(['discard', op[1]])
            flat[pos][1] = ['nop']
        elif op[0] == 'discard_old' and op[1] in old_closed_at:
            inserts.setdefault(old_closed_at[op[1]], []).append(['discard', op[1]])
            flat[pos][1] = ['nop']
    groups = {}
    for pos, (g, op) in enumerate(flat):
        for extra in inserts.get(pos, []):
            groups.setdefault(g, []).append(extra)
        groups.setdefault(g, []).append(op)
    ops = []
    for g in sorted(groups):
        ops.append(groups[g][0] if len(groups[g]) == 1 else ['seq', groups[g]])
    return dict(case, ops=ops)


def neutralise_b(case):
    """the same history, but a reopened descriptor gets a number that was never used before"""
    return dict(case, fresh_numbers=True)


# ------------------------------------------------------------------------------------------------
# dialogue harness: a real TCPServer over each poller
# ------------------------------------------------------------------------------------------------
WAIT = 20.0     # wall-clock bound on waiting for the kernel (loopback delivery); expiry => inconclusive


def wait_readable(sock, what):
    t0 = time.monotonic()
    while True:
        r, _, _ = select.select([sock], [], [], 0.5)
        if r:
            return
        if time.monotonic() - t0 > WAIT:
            raise HarnessError('kernel did not deliver %s within %ss' % (what, WAIT))


def chunk(c, j, n):
    return bytes((c * 31 + j * 7 + t) % 251 for t in range(n))


class DlgWorld:
    def __init__(self, pname, case):
        from circuits import BaseComponent, Manager, handler
        from circuits.core import pollers
        from circuits.net.events import write
        from circuits.net.sockets import TCPServer
        from vlib.driver import mark_running
        self.pname = pname
        self.case = case
        world = self
        self.log = []         # (name, sock, ...)
        self.exceptions = []
        echo = bool(case.get('echo'))

        class Observer(BaseComponent):
            channel = 'server'

            @handler('connect', 'read', 'disconnect', priority=1000)
            def _on_stream_event(self, event, *args):
                world.log.append((event.name,) + tuple(args))
                if echo and event.name == 'read':
                    self.fire(write(args[0], args[1]))

            @handler('exception', channel='*', priority=1000)
            def _on_exception(self, event, *args, **kwargs):
                world.exceptions.append(repr(args[:2])[:300])

        self.root = Manager()
        self.poller = getattr(pollers, pname)().register(self.root)
        from vlib.netwait import retry_addr_in_use
        self.server = retry_addr_in_use(lambda: TCPServer(('127.0.0.1', 0))).register(self.root)
        Observer().register(self.root)
        for _ in range(20):
            if not len(self.root):
                break
            self.root.flush()
        mark_running(self.root)
        self.port = self.server.port
        self.lsock = self.server._sock
        if not self.port or self.lsock is None:
            raise HarnessError('server did not come up')
        self.peers = {}       # c -> dict(sock, port, ssock, sent, nsend, echoed, state)
        self.marks = set()

    def tick(self):
        self.root.tick(0)
        for _ in range(30):
            if not len(self.root):
                return
            self.root.flush()

    def ssock(self, c):
        port = self.peers[c]['port']
        for e in self.log[self.peers[c]['log_at']:]:
            if e[0] == 'connect' and e[3] == port:
                return e[1]
        return None

    def nread(self, s):
        return sum(len(e[2]) for e in self.log if e[0] == 'read' and e[1] is s)

    def disconnected(self, s):
        return any(e[0] == 'disconnect' and e[1] is s for e in self.log)

    def round(self, actions):
        expect = []
        if len({a[0] for a in actions}) > 1:
            self.marks.add('dlg_two_connections_one_round')
        if any(a[1] == 'send' and b[0] == a[0] and b[1] in ('shutwr', 'close', 'abort') for a in actions for b in actions):
            self.marks.add('dlg_data_and_end_pending_together')
        for a in actions:
            c, act = a[0], a[1]
            if act == 'connect':
                if c in self.peers:
                    continue
                s = socket.socket(socket.AF_INET, socket.SOCK_STREAM)
                s.setsockopt(socket.IPPROTO_TCP, socket.TCP_NODELAY, 1)
                s.connect(('127.0.0.1', self.port))
                s.setblocking(False)
                self.peers[c] = {'sock': s, 'port': s.getsockname()[1], 'sent': b'', 'nsend': 0, 'echoed': b'', 'open': True, 'end': None,
                                 'log_at': len(self.log)}
                expect.append((c, 'connect'))
                continue
            p = self.peers.get(c)
            if p is None or not p['open']:
                continue
            if act == 'send':
                if p['end'] == 'shutwr':
                    continue
                data = chunk(c, p['nsend'], a[2])
                p['nsend'] += 1
                p['sock'].setblocking(True)
                p['sock'].sendall(data)
                p['sock'].setblocking(False)
                p['sent'] += data
                expect.append((c, 'send'))
            elif act == 'shutwr':
                if p['end']:
                    continue
                p['sock'].shutdown(socket.SHUT_WR)
                p['end'] = 'shutwr'
                self.marks.add('dlg_half_close')
                expect.append((c, 'end'))
            elif act == 'close':
                p['sock'].close()
                p['open'] = False
                if not p['end']:
                    expect.append((c, 'end'))
                p['end'] = p['end'] or 'close'
            elif act == 'abort':
                p['sock'].setsockopt(socket.SOL_SOCKET, socket.SO_LINGER, struct.pack('ii', 1, 0))
                p['sock'].close()
                p['open'] = False
                if not p['end']:
                    expect.append((c, 'end'))
                    self.marks.add('dlg_abort')
                p['end'] = p['end'] or 'abort'
        # 1. wait until the harness itself sees the kernel state, 2. tick a bounded number of times
        for c, what in expect:
            p = self.peers[c]
            if what == 'connect':
                for _ in range(6):
                    if self.ssock(c) is not None:
                        break
                    wait_readable(self.lsock, 'the connection request')
                    self.tick()
                    self.tick()
                continue
            s = self.ssock(c)
            if s is None:
                continue            # the stream will show the missing connect
            if what == 'send':
                idle = 0
                while self.nread(s) < len(p['sent']) and idle < 4 and not self.disconnected(s) and s.fileno() >= 0:
                    before = self.nread(s)
                    wait_readable(s, 'peer data')
                    self.tick()
                    self.tick()
                    idle = idle + 1 if self.nread(s) == before else 0
                if self.case.get('echo') and p['open']:
                    idle = 0
                    while len(p['echoed']) < len(p['sent']) and idle < 4:
                        self.tick()
                        r, _, _ = select.select([p['sock']], [], [], 0 if idle < 2 else 2.0)
                        got = b''
                        if r:
                            try:
                                got = p['sock'].recv(65536)
                            except OSError:
                                got = b''
                        p['echoed'] += got
                        idle = 0 if got else idle + 1
                    if p['echoed'] == p['sent']:
                        self.marks.add('dlg_echo_complete')
            else:
                for _ in range(4):
                    if self.disconnected(s):
                        break
                    if s.fileno() >= 0:
                        wait_readable(s, 'the end of the peer stream')
                    self.tick()
                    self.tick()

    def streams(self):
        out = {}
        for c, p in sorted(self.peers.items()):
            s = self.ssock(c)
            seq = []
            data = b''
            for e in self.log:
                if s is not None and e[1] is s:
                    if e[0] == 'read':
                        data += e[2]
                        if not seq or seq[-1] != 'read':
                            seq.append('read')
                    else:
                        seq.append(e[0])
            out[c] = {'order': seq, 'data': data}
        return out

    def expected(self):
        out = {}
        for c, p in sorted(self.peers.items()):
            seq = ['connect']
            if p['sent']:
                seq.append('read')
            if p['end']:
                seq.append('disconnect')
            out[c] = {'order': seq, 'data': p['sent']}
        return out

    def close(self):
        for p in self.peers.values():
            try:
                p['sock'].close()
            except OSError:
                pass
        srv = self.server
        for s in list(getattr(srv, '_clients', [])) + [getattr(srv, '_sock', None)]:
            try:
                if s is not None:
                    s.close()
            except OSError:
                pass
        pl = self.poller
        for fd in (pl._ctrl_recv, pl._ctrl_send):
            try:
                os.close(fd) if isinstance(fd, int) else fd.close()
            except OSError:
                pass
        inner = getattr(pl, '_poller', None)
        if hasattr(inner, 'close'):
            try:
                inner.close()
            except OSError:
                pass


def run_dlg(case):
    problems = []
    counts = {}
    marks = set()
    streams = {}
    expected = None
    nontrivial = False
    for pname in case.get('pollers', POLLERS):
        w = DlgWorld(pname, case)
        try:
            for actions in case['rounds']:
                w.round(actions)
            w.tick()
            streams[pname] = w.streams()
            exp = w.expected()
            expected = exp if expected is None else expected
            for c, st in streams[pname].items():
                counts['STREAM_MATCHES_PEER'] = counts.get('STREAM_MATCHES_PEER', 0) + 1
                if st != exp[c]:
                    problems.append(('STREAM_MATCHES_PEER', {'poller': pname, 'connection': c, 'observed': st, 'expected': exp[c],
                                                             'peer_end': w.peers[c]['end']}))
                else:
                    if 'connect' in st['order']:
                        marks.add('dlg_connect')
                    if st['data']:
                        marks.add('dlg_read')
                    if 'disconnect' in st['order']:
                        marks.add('dlg_disconnect')
                    if st['data'] and 'disconnect' in st['order']:
                        nontrivial = True
            if w.exceptions:
                counts['POLLER_RAISED'] = counts.get('POLLER_RAISED', 0) + 1
                problems.append(('POLLER_RAISED', {'poller': pname, 'exceptions': w.exceptions[:3]}))
            marks |= w.marks
        finally:
            w.close()
    names = list(streams)
    for c in streams[names[0]]:
        counts['INTERCHANGEABLE'] = counts.get('INTERCHANGEABLE', 0) + 1
        per = {n: streams[n].get(c) for n in names}
        if any(per[n] != per[names[0]] for n in names):
            problems.append(('INTERCHANGEABLE', {'connection': c, 'streams': per}))
    return problems, {'marks': marks, 'counts': counts, 'nontrivial': nontrivial, 'trigger_a': False, 'trigger_b': False}


# ------------------------------------------------------------------------------------------------
# cases
# ------------------------------------------------------------------------------------------------
def raw(ops, npairs=3, **kw):
    return dict({'kind': 'raw', 'npairs': npairs, 'ops': ops}, **kw)


def corpus():
    cs = []
    # roles: add, remove one role while the other stays, re-add; readiness driven by the peer
    cs.append(raw([['addR', 0, 0], ['peer_send', 0, 3], ['addW', 0, 0], ['rmR', 0], ['addR', 0, 0], ['rmW', 0], ['consume', 0],
                   ['peer_send', 0, 1], ['rmR', 0], ['addW', 1, 1], ['rmW', 1], ['addR', 1, 1], ['peer_send', 1, 2], ['discard', 1]]))
    # ready but not registered; registered but not ready; several sockets in one iteration; distinct channels
    cs.append(raw([['peer_send', 0, 1], ['peer_send', 1, 1], ['peer_send', 2, 1], ['peer_send', 3, 1],
                   ['seq', [['addR', 0, 0], ['addR', 1, 1], ['addR', 2, 2], ['addW', 3, 0]]], ['addW', 0, 0], ['addW', 1, 1], ['consume', 1],
                   ['rmW', 0], ['discard', 2], ['rmR', 0], ['rmW', 1], ['rmR', 1], ['discard', 3]], npairs=4))
    # re-add after discard with another owner (the target map must follow)
    cs.append(raw([['addR', 0, 0], ['addW', 0, 0], ['peer_send', 0, 2], ['discard', 0], ['addW', 0, 1], ['addR', 0, 1], ['discard', 0],
                   ['addR', 0, 2], ['rmR', 0], ['addW', 0, 0], ['peer_send', 1, 1], ['addR', 1, 2], ['discard', 1], ['addR', 1, 0]]))
    # another component registers the other role of a descriptor; then one of the two leaves: events go to the one that remains
    # (later registrant remains / earlier registrant remains / reader remains / writer remains)
    cs.append(raw([['addR', 0, 0], ['addW', 0, 1], ['rmR', 0], ['nop', 0], ['peer_send', 0, 1], ['addR', 0, 1], ['rmW', 0], ['nop', 0], ['discard', 0]]))
    cs.append(raw([['addR', 0, 0], ['peer_send', 0, 2], ['addW', 0, 1], ['rmW', 0], ['nop', 0], ['consume', 0], ['nop', 0], ['rmR', 0]]))
    cs.append(raw([['addW', 1, 2], ['addR', 1, 0], ['peer_send', 1, 1], ['rmW', 1], ['nop', 1], ['addW', 1, 1], ['rmR', 1], ['nop', 1], ['rmW', 1]]))
    cs.append(raw([['addW', 2, 2], ['addR', 2, 0], ['rmR', 2], ['nop', 2], ['peer_send', 2, 3], ['addR', 2, 2], ['nop', 2], ['discard', 2]]))
    # send buffer full => registered writer is silent; drained => reported again
    cs.append(raw([['addW', 0, 0], ['fill', 0], ['addR', 0, 0], ['peer_send', 0, 1], ['drain', 0], ['fill', 0], ['rmR', 0], ['drain', 0],
                   ['rmW', 0], ['fill', 1], ['addW', 1, 2], ['addR', 1, 2], ['drain', 1]]))
    # hang-up: reader sees EOF; writer only => Select _write, Poll/EPoll _disconnect + auto-discard; re-add afterwards
    cs.append(raw([['addR', 0, 0], ['peer_close', 0], ['rmR', 0], ['addW', 0, 0], ['addR', 0, 0], ['addW', 1, 1], ['peer_close', 1],
                   ['addW', 1, 1], ['discard', 1], ['addW', 2, 2], ['addR', 2, 2], ['peer_close', 2], ['rmR', 2], ['discard', 2]]))
    # half close and reset
    cs.append(raw([['addR', 0, 0], ['addW', 0, 0], ['peer_shutwr', 0], ['consume', 0], ['rmW', 0], ['addR', 1, 1], ['peer_send', 1, 2],
                   ['peer_abort', 1], ['consume', 1], ['addW', 1, 1], ['rmR', 1], ['addW', 2, 2], ['peer_abort', 2], ['discard', 2]]))
    # the safe order: discard, close, same number reused by an unrelated readable socket, then registered again
    cs.append(raw([['addR', 0, 0], ['addW', 0, 0], ['peer_send', 0, 1], ['seq', [['discard', 0], ['close', 0]]], ['reopen', 0, 2],
                   ['peer_send', 0, 1], ['addR', 0, 1], ['addW', 0, 1], ['rmR', 0], ['seq', [['discard', 0], ['close', 0], ['reopen', 0, 1]]],
                   ['addR', 0, 2], ['discard', 0], ['close', 0], ['reopen', 0, 3], ['addW', 0, 0], ['rmW', 0]]))
    # close without discard, number NOT reused: Select preens, Poll notices POLLNVAL, EPoll forgot it
    cs.append(raw([['addR', 0, 0], ['addR', 1, 1], ['peer_send', 1, 1], ['addW', 2, 2], ['close', 0], ['peer_send', 1, 1], ['rmW', 2],
                   ['addW', 1, 1], ['close', 1], ['addR', 2, 2], ['peer_send', 2, 1], ['nop', 0]]))
    # close, an iteration, then discard (the poller had the chance to drop it first)
    cs.append(raw([['addR', 0, 0], ['addW', 1, 1], ['close', 0], ['discard', 0], ['reopen', 0, 2], ['rmW', 1], ['addR', 0, 2], ['rmR', 0]]))
    # known finding A: close THEN discard before the next iteration (no reuse / with reuse / discard after the reuse)
    cs.append(raw([['addR', 0, 0], ['peer_send', 1, 1], ['addR', 1, 1], ['seq', [['close', 0], ['discard', 0]]], ['rmR', 1], ['nop', 0]]))
    cs.append(raw([['addR', 0, 0], ['addW', 1, 1], ['seq', [['close', 0], ['discard', 0], ['reopen', 0, 2]]], ['rmW', 1], ['peer_send', 0, 1],
                   ['addR', 0, 2], ['consume', 0]]))
    cs.append(raw([['addR', 0, 0], ['addW', 0, 0], ['seq', [['close', 0], ['reopen', 0, 2], ['discard_old', 0]]], ['addW', 1, 1], ['rmW', 1], ['nop', 0]]))
    # ... and the late discard (or role removal) of the closed object comes when the NEW holder of the number is already registered
    cs.append(raw([['addR', 0, 0], ['peer_send', 0, 1], ['seq', [['close', 0], ['reopen', 0, 2], ['addR', 0, 1], ['discard_old', 0]]], ['peer_send', 0, 1], ['nop', 0],
                   ['rmR', 0], ['nop', 0]]))
    cs.append(raw([['addW', 0, 0], ['addR', 1, 1], ['seq', [['close', 0], ['reopen', 0, 1], ['addW', 0, 2], ['addR', 0, 2], ['discard_old', 0]]], ['peer_send', 0, 2], ['nop', 0],
                   ['peer_send', 1, 1], ['rmW', 0], ['nop', 0], ['discard', 0]]))
    # known finding B: closed without discard, number reused by a socket the poller was never told about
    cs.append(raw([['addR', 0, 0], ['addW', 1, 1], ['seq', [['close', 0], ['reopen', 0, 2]]], ['rmW', 1], ['peer_send', 0, 1], ['nop', 0]]))
    cs.append(raw([['addR', 0, 0], ['addW', 0, 0], ['addR', 1, 1], ['seq', [['close', 0], ['reopen', 0, 0]]], ['peer_send', 1, 1], ['peer_send', 0, 1],
                   ['rmR', 1], ['nop', 0]]))
    # int descriptors (File style registration)
    cs.append(raw([['addR', 0, 0], ['peer_send', 0, 1], ['addW', 0, 0], ['rmR', 0], ['discard', 0], ['addR', 0, 1], ['addW', 1, 2], ['fill', 1],
                   ['drain', 1], ['rmW', 1], ['seq', [['discard', 0], ['close', 0], ['reopen', 0, 1]]], ['addR', 0, 2], ['rmR', 0]], as_int=True))
    # dialogues
    cs.append({'kind': 'dlg', 'echo': False, 'rounds': [[[0, 'connect']], [[0, 'send', 5]], [[0, 'send', 300]], [[0, 'close']]]})
    cs.append({'kind': 'dlg', 'echo': False, 'rounds': [[[0, 'connect'], [1, 'connect']], [[0, 'send', 3], [1, 'send', 4]], [[0, 'shutwr']],
                                                        [[1, 'send', 2]], [[1, 'abort'], [0, 'close']]]})
    cs.append({'kind': 'dlg', 'echo': True, 'rounds': [[[0, 'connect']], [[0, 'send', 10]], [[1, 'connect']], [[1, 'send', 2000], [0, 'send', 1]],
                                                       [[0, 'abort']], [[1, 'shutwr']], [[1, 'close']]]})
    cs.append({'kind': 'dlg', 'echo': True, 'rounds': [[[0, 'connect']], [[0, 'close']], [[1, 'connect']], [[1, 'abort']], [[2, 'connect']],
                                                       [[2, 'send', 7]], [[2, 'send', 9]], [[2, 'close']]]})
    cs.append({'kind': 'dlg', 'echo': False, 'rounds': [[[0, 'connect'], [1, 'connect'], [2, 'connect']], [[0, 'send', 9000], [0, 'abort']],
                                                        [[1, 'send', 10], [1, 'close'], [2, 'send', 1500], [2, 'shutwr']], [[2, 'close']]]})
    return cs


def gen_raw(rng):
    npairs = rng.randint(3, 5)
    as_int = rng.random() < 0.12
    style = 'safe' if as_int else rng.choice(['safe', 'safe', 'A', 'B'])
    regR = [False] * npairs
    regW = [False] * npairs
    owner = [None] * npairs
    closed = [False] * npairs
    was_reg = [False] * npairs        # registered when it was closed and not discarded since
    reopens = 0
    ops = []

    def one(i):
        nonlocal reopens
        if closed[i]:
            choices = ['reopen'] * 3 + (['discard'] if style == 'A' and was_reg[i] else []) + ['other']
            c = rng.choice(choices)
            if c == 'reopen' and reopens < 8:
                reopens += 1
                closed[i] = False
                out = [['reopen', i, rng.choice([0, 1, 3])]]
                if style == 'A' and was_reg[i] and rng.random() < 0.7:
                    # keep style A pure: the discard happens before the next iteration
                    out.append(['discard_old', i])
                    was_reg[i] = False
                    return [['seq', out]]
                if style == 'A':
                    was_reg[i] = False
                return out
            if c == 'discard':
                was_reg[i] = False
                return [['discard', i]]
            return None
        r = rng.random()
        if r < 0.40:
            cand = []
            if not regR[i]:
                cand.append('addR')
            if not regW[i]:
                cand.append('addW')
            if regR[i]:
                cand.append('rmR')
            if regW[i]:
                cand.append('rmW')
            cand.append('discard')
            c = rng.choice(cand)
            if c in ('addR', 'addW'):
                if owner[i] is None:
                    owner[i] = rng.randrange(NSRC)
                who = owner[i]
                if (regR[i] or regW[i]) and rng.random() < 0.25:
                    who = rng.randrange(NSRC)      # another component registers the other role
                if c == 'addR':
                    regR[i] = True
                else:
                    regW[i] = True
                return [[c, i, who]]
            if c == 'rmR':
                regR[i] = False
            elif c == 'rmW':
                regW[i] = False
            else:
                regR[i] = regW[i] = False
            if not (regR[i] or regW[i]):
                owner[i] = None
            return [[c, i]]
        if r < 0.80:
            c = rng.choice(['peer_send', 'peer_send', 'consume', 'fill', 'drain', 'drain', 'peer_close', 'peer_abort', 'peer_shutwr'])
            if c in ('peer_close', 'peer_abort', 'peer_shutwr') and rng.random() < 0.5:
                c = 'peer_send'
            return [[c, i, rng.choice([1, 2, 17])]] if c == 'peer_send' else [[c, i]]
        # closing
        if reopens >= 8:
            return None
        registered = regR[i] or regW[i]
        regR[i] = regW[i] = False
        owner[i] = None
        closed[i] = True
        mode = style if registered else 'safe'
        tail = []
        if rng.random() < 0.5:
            reopens += 1
            closed[i] = False
            tail = [['reopen', i, rng.choice([0, 1, 3])]]
        if mode == 'safe':
            form = rng.random()
            if form < 0.6 or tail:
                return [['seq', [['discard', i], ['close', i]] + tail]]
            return [['discard', i], ['close', i]]
        if mode == 'A':
            form = rng.random()
            if tail and form < 0.5:
                mid = []
                if rng.random() < 0.5:
                    # the new holder of the number is registered before the closed object is discarded
                    who = rng.randrange(NSRC)
                    role = rng.choice(['addR', 'addW'])
                    mid = [[role, i, who]]
                    owner[i] = who
                    if role == 'addR':
                        regR[i] = True
                    else:
                        regW[i] = True
                return [['seq', [['close', i]] + tail + mid + [['discard_old', i]]]]
            if form < 0.85 or tail:
                return [['seq', [['close', i], ['discard', i]] + tail]]
            was_reg[i] = True
            return [['close', i]]         # discard may follow after an iteration
        # B: never discarded
        if tail:
            return [['seq', [['close', i]] + tail]] if rng.random() < 0.7 else [['close', i]] + tail
        return [['close', i]]

    n = rng.randint(10, 50)
    # a prologue that makes most histories non-trivial quickly
    for i in range(npairs):
        if rng.random() < 0.6:
            o = one(i)
            if o:
                ops.extend(o)
    while len(ops) < n:
        o = one(rng.randrange(npairs))
        if o:
            ops.extend(o)
    case = raw(ops, npairs=npairs)
    if as_int:
        case['as_int'] = True
    return case


def gen_dlg(rng):
    nconn = rng.randint(1, 3)
    echo = rng.random() < 0.5
    state = {}
    rounds = []
    nxt = 0
    for _ in range(rng.randint(4, 14)):
        acts = []
        for _ in range(rng.choice([1, 1, 2])):
            live = [c for c, s in state.items() if s != 'closed']
            if nxt < nconn and (not live or rng.random() < 0.3):
                acts.append([nxt, 'connect'])
                state[nxt] = 'open'
                nxt += 1
                continue
            if not live:
                continue
            c = rng.choice(live)
            if any(a[0] == c for a in acts):
                continue
            if state[c] == 'open' and not echo and rng.random() < 0.25:
                # burst: the data and the end of the stream are both pending when the server looks
                end = rng.choice(['shutwr', 'close', 'abort'])
                acts.append([c, 'send', rng.choice([1, 10, 1500, 9000])])
                acts.append([c, end])
                state[c] = 'half' if end == 'shutwr' else 'closed'
                continue
            if state[c] == 'half':
                a = rng.choice(['close', 'abort'])
            else:
                a = rng.choice(['send', 'send', 'send', 'shutwr', 'close', 'abort'])
            if a == 'send':
                acts.append([c, 'send', rng.choice([1, 2, 10, 100, 1500, 5000])])
            else:
                acts.append([c, a])
                state[c] = 'half' if a == 'shutwr' else 'closed'
        if acts:
            rounds.append(acts)
    tail = [[c, rng.choice(['close', 'abort'])] for c, s in state.items() if s != 'closed']
    if tail:
        rounds.append(tail)
    return {'kind': 'dlg', 'echo': echo, 'rounds': rounds}


def plan(tier, seed):
    if tier == 'quick':
        return ([{'kind': 'corpus'}] + [{'kind': 'random', 'seed': seed * 1000 + i, 'n': 25} for i in range(12)] +
                [{'kind': 'dialogues', 'seed': seed * 1000 + 500 + i, 'n': 8} for i in range(3)])
    return ([{'kind': 'corpus'}] + [{'kind': 'random', 'seed': seed * 100000 + i, 'n': 480} for i in range(64)] +
            [{'kind': 'dialogues', 'seed': seed * 100000 + 50000 + i, 'n': 60} for i in range(16)])


def run_case(case):
    if case['kind'] == 'dlg':
        return run_dlg(case)
    return run_raw(case)


def passes(case):
    problems, _ = run_case(case)
    return not problems


def evaluate_case(b, case):
    try:
        with cpu_budget(120):
            problems, info = run_case(case)
    except BudgetExceeded as e:
        b.fail(case, 'NO_PROGRESS', {'error': str(e)}, dedup='')
        return
    except HarnessError as e:
        b.inconclusive_because('harness: %s' % e)
        return
    except Exception as e:
        import traceback
        b.fail(case, 'HARNESS_RAISED', {'error': repr(e), 'tb': traceback.format_exc(limit=8)}, dedup=type(e).__name__)
        return
    b.case(case, nontrivial=info.get('nontrivial', False))
    for m in info.get('marks', ()):
        b.reached(m)
    first = {}
    for clause, detail in problems:
        first.setdefault(clause, detail)
    for clause, n in info.get('counts', {}).items():
        good = n - sum(1 for c, _ in problems if c == clause)
        if good > 0:
            b.ok(clause, good)
    known = []
    if info.get('trigger_a'):
        known.append((KEY_A, lambda: passes(neutralise_a(case))))
    if info.get('trigger_b'):
        known.append((KEY_B, lambda: passes(neutralise_b(case))))
    for clause, detail in first.items():
        b.fail(case, clause, detail, known=known, dedup=str(detail.get('poller', '')))


def inselect_cases(b):
    """Registration changes that happen while the Select poller is *inside* its select() call (what another thread can do):
    select.select() asks every registered object for its fileno() while it builds its sets, so a registered trigger object whose
    fileno() performs the change puts it exactly there, deterministically and in one thread.  A descriptor that was collected
    before the change is reported ready by the kernel although it is no longer registered: no event may be emitted for it
    ("iff it is currently registered"; "discarded or closed descriptors produce no further events even when their number is reused")."""
    import os
    import socket as _socket
    import threading

    from circuits import BaseComponent, handler
    from circuits.core.events import generate_events
    from circuits.core.pollers import Select

    class Trigger:
        def __init__(self, fd):
            self.fd, self.hook, self.armed = fd, None, False

        def fileno(self):
            if self.armed:
                self.armed = False
                self.hook()
            return self.fd

    for scenario in ('discard-reader', 'remove-reader', 'remove-writer', 'discard-writer', 'discard-close-reuse'):
        seen = []

        class Obs(BaseComponent):
            @handler('_read', '_write', '_disconnect', '_error', channel='*', priority=10)
            def _on(self, event, *args):
                seen.append((event.name, args[0] if args else None))

        root = Obs()
        poller = Select().register(root)
        src = BaseComponent(channel='owner').register(root)
        while len(root):
            root.flush()
        a, peer = _socket.socketpair()
        other, other_peer = _socket.socketpair()
        idle_r, idle_w = os.pipe()
        a.setblocking(False)
        trig = Trigger(idle_r)
        victim_fd = a.fileno()
        if scenario in ('remove-writer', 'discard-writer'):
            poller.addWriter(src, a)          # writable at once
            poller.addWriter(src, trig)       # a pipe read end is never "writable"
        else:
            peer.send(b'x')                   # readable
            poller.addReader(src, a)
            poller.addReader(src, trig)       # idle pipe: never readable
        other_peer.send(b'y')

        def hook(scenario=scenario):
            if scenario == 'discard-reader' or scenario == 'discard-writer':
                poller.discard(a)
            elif scenario == 'remove-reader':
                poller.removeReader(a)
            elif scenario == 'remove-writer':
                poller.removeWriter(a)
            else:
                poller.discard(a)
                a.close()
                os.dup2(other.fileno(), victim_fd)   # the number now belongs to an unrelated readable descriptor
        trig.hook = hook
        # control iteration: while registered the descriptor IS reported
        root.fire(generate_events(threading.RLock(), 0), '*')
        while len(root):
            root.flush()
        control = [x for x in seen if x[1] is a]
        del seen[:]
        trig.armed = True
        root.fire(generate_events(threading.RLock(), 0), '*')
        while len(root):
            root.flush()
        case = {'family': 'inselect', 'scenario': scenario}
        b.case(case, nontrivial=True)
        b.reached('change_inside_select_call')
        if control:
            b.reached('inselect_control_event_seen')
        stale = [(n, 'victim') for n, o in seen if o is a]
        if trig.armed:
            b.inconclusive_because('the trigger object was never asked for its fileno(): Select no longer passes its lists to select()?')
        elif stale:
            b.fail(case, 'NO_EVENT_AFTER_DISCARD' if 'discard' in scenario else 'SILENT_WHEN_NOT_DUE',
                   {'scenario': scenario, 'events_for_the_descriptor_after_the_change': stale,
                    'note': 'registration changed while select() was collecting its sets'}, dedup='inselect')
        else:
            b.ok('NO_EVENT_AFTER_DISCARD' if 'discard' in scenario else 'SILENT_WHEN_NOT_DUE')
        for fd in (idle_r, idle_w):
            try:
                os.close(fd)
            except OSError:
                pass
        if scenario == 'discard-close-reuse':
            try:
                os.close(victim_fd)
            except OSError:
                pass
        for so in (a, peer, other, other_peer):
            try:
                so.close()
            except OSError:
                pass
        for fd in (poller._ctrl_recv, poller._ctrl_send):
            try:
                os.close(fd)
            except OSError:
                pass


def intfd_cases(b):
    """Descriptors registered by NUMBER (as circuits.io does) and closed at the OS level without discard(): every poller must
    drop them (no further events, the other registered descriptors keep being served, nothing escapes the iteration), also
    once the number is taken over by an unrelated readable descriptor."""
    import os
    import socket as _socket
    import threading

    from circuits import BaseComponent, handler
    from circuits.core import pollers as P
    from circuits.core.events import generate_events

    for pname, role, zero in [(p_, r_, z_) for p_ in ('Select', 'Poll', 'EPoll') for r_ in ('reader', 'writer') for z_ in (False, True)]:
        if True:
            seen, excs = [], []

            class Obs(BaseComponent):
                @handler('_read', '_write', '_disconnect', '_error', channel='*', priority=10)
                def _on(self, event, *args):
                    seen.append((event.name, args[0] if args else None, event.channels))

                @handler('exception', channel='*')
                def _on_exc(self, etype, evalue, tb, handler=None, fevent=None):
                    excs.append(repr(evalue))

            root = Obs()
            poller = getattr(P, pname)().register(root)
            sx = BaseComponent(channel='x').register(root)
            sz = BaseComponent(channel='z').register(root)
            while len(root):
                root.flush()
            a, a_peer = _socket.socketpair()
            c, c_peer = _socket.socketpair()
            saved0 = None
            if zero:
                # descriptor number 0 (a daemon that closed stdin, a program watching its own stdin): a legal number like any other
                saved0 = os.dup(0)
                os.dup2(a.fileno(), 0)
                number = 0
            else:
                number = os.dup(a.fileno())      # the descriptor registered by number
            a.close()
            other, other_peer = _socket.socketpair()   # (created now, so that neither end can get `number` once that is free)

            def iterate(n=1):
                for _ in range(n):
                    root.fire(generate_events(threading.RLock(), 0), '*')
                    while len(root):
                        root.flush()

            if role == 'reader':
                a_peer.send(b'1')
                poller.addReader(sx, number)
            else:
                poller.addWriter(sx, number)
            c_peer.send(b'2')
            poller.addReader(sz, c)
            iterate()
            control = {(n, o) for n, o, _ in seen}
            case = {'family': 'intfd', 'poller': pname, 'role': role, 'number_zero': zero}
            b.case(case, nontrivial=True)
            b.reached('descriptor_registered_by_number')
            if zero:
                b.reached('descriptor_number_zero_registered')
            want = ('_read' if role == 'reader' else '_write', number)
            if want in control and ('_read', c) in control:
                b.reached('intfd_control_events_seen')
                b.ok('COMPLETE_READ' if role == 'reader' else 'COMPLETE_WRITE')
            else:
                # registered and ready, but not reported
                b.fail(case, 'COMPLETE_READ' if role == 'reader' else 'COMPLETE_WRITE',
                       {'poller': pname, 'note': 'a live descriptor registered by number and ready was not reported', 'number': number,
                        'events_seen': sorted((n, repr(o)) for n, o in control)}, dedup='intfd-live')
            del seen[:], excs[:]
            os.close(number)                 # closed at the OS level, no discard()
            served = 0
            for _ in range(4):
                c_peer.send(b'3')
                c.recv(100)                  # drain so that each iteration needs a fresh readiness
                c_peer.send(b'4')
                iterate()
                if any(n == '_read' and o is c for n, o, _ in seen):
                    served += 1
                c.recv(100)
            stale1 = [(n, 'closed-number') for n, o, _ in seen if o == number and n in ('_read', '_write')]
            os.dup2(other.fileno(), number)   # an unrelated descriptor takes the number
            other_peer.send(b'5')
            del seen[:]
            iterate(3)
            stale2 = [(n, 'reused-number') for n, o, _ in seen if o == number]
            problems = []
            if stale1 or stale2:
                problems.append(('NO_EVENT_FOR_CLOSED', {'poller': pname, 'events_for_the_closed_number': stale1 + stale2}))
            if served < 3:
                problems.append(('COMPLETE_READ', {'poller': pname, 'note': 'another registered, readable descriptor was no longer reported after a '
                                                   'number-registered descriptor had been closed', 'iterations_served': served, 'exceptions': excs[:2]}))
            # ... and the new holder of the number is then registered by that number, for the same role, by another component: registered and
            # ready, so it is reported - in every iteration, to the component that registered it now
            sy = BaseComponent(channel='y').register(root)
            while len(root):
                root.flush()
            (poller.addReader if role == 'reader' else poller.addWriter)(sy, number)
            again = []
            for _ in range(2):
                del seen[:]
                iterate()
                again.append([(n, ch) for n, o, ch in seen if o == number])
            b.reached('closed_number_reused_and_registered_again_by_number')
            wname = '_read' if role == 'reader' else '_write'
            if not all(any(n == wname for n, _ in it_) for it_ in again):
                problems.append(('COMPLETE_READ' if role == 'reader' else 'COMPLETE_WRITE',
                                 {'poller': pname, 'note': 'the number of a descriptor that was closed without discard() was taken over by another descriptor, which '
                                  'was then registered by that number: registered and ready, but not reported', 'events_per_iteration': again}))
            elif any(n == wname and 'y' not in ch for it_ in again for n, ch in it_):
                problems.append(('ADDRESS', {'poller': pname, 'note': 'events for the re-registered number went to the component that had registered the closed one',
                                             'events_per_iteration': again}))
            else:
                b.ok('ADDRESS')
            if excs:
                problems.append(('POLLER_RAISED', {'poller': pname, 'exceptions': excs[:3]}))
            if problems:
                for clause, detail in problems:
                    b.fail(case, clause, detail, dedup='intfd')
            else:
                b.ok('NO_EVENT_FOR_CLOSED')
                b.ok('COMPLETE_READ')
            if saved0 is not None:
                os.dup2(saved0, 0)      # stdin back in its place
                os.close(saved0)
            else:
                try:
                    os.close(number)
                except OSError:
                    pass
            for so in (a_peer, c, c_peer, other, other_peer):
                try:
                    so.close()
                except OSError:
                    pass
            for fd in (poller._ctrl_recv, poller._ctrl_send):
                try:
                    os.close(fd)
                except OSError:
                    pass


def objreuse_cases(b):
    """A registered socket OBJECT is closed without discard(); a NEW object that got the same descriptor number is registered by another
    component.  The new registration is what the number means from then on: its readiness is reported, to its own target, and the dead
    object gets no read/write events."""
    import socket as _socket
    import threading

    from circuits import BaseComponent, handler
    from circuits.core import pollers as P
    from circuits.core.events import generate_events

    for pname in ('Select', 'Poll', 'EPoll'):
        for role in ('reader', 'writer'):
            seen, excs = [], []

            class Obs(BaseComponent):
                @handler('_read', '_write', '_disconnect', '_error', channel='*', priority=10)
                def _on(self, event, *args):
                    seen.append((event.name, args[0] if args else None, tuple(event.channels)))

                @handler('exception', channel='*')
                def _on_exc(self, etype, evalue, tb, handler=None, fevent=None):
                    excs.append(repr(evalue))

            root = Obs()
            poller = getattr(P, pname)().register(root)
            sx = BaseComponent(channel='x').register(root)
            sz = BaseComponent(channel='z').register(root)
            while len(root):
                root.flush()

            def iterate():
                root.fire(generate_events(threading.RLock(), 0), '*')
                while len(root):
                    root.flush()

            # (descriptor numbers are handed out lowest-first: nothing may be freed behind the harness's back between the close and the next
            # socketpair - collect what earlier cases left behind now, and keep the collector quiet until the numbers are taken)
            import gc
            gc.collect()
            gc.disable()
            a, a_peer = _socket.socketpair()
            number = a.fileno()
            if role == 'reader':
                poller.addReader(sx, a)
                a_peer.send(b'1')
            else:
                poller.addWriter(sx, a)
            iterate()
            del seen[:], excs[:]
            a.close()                                   # closed, never discarded
            nb, nb_peer = _socket.socketpair()
            gc.enable()
            case = {'family': 'objreuse', 'poller': pname, 'role': role}
            if nb.fileno() != number and nb_peer.fileno() != number:
                b.inconclusive_because('the freed descriptor number was not handed to the next socket')
                continue
            if nb_peer.fileno() == number:
                nb, nb_peer = nb_peer, nb
            b.case(case, nontrivial=True)
            b.reached('closed_object_number_reused_by_new_registration')
            ev = '_read' if role == 'reader' else '_write'
            if role == 'reader':
                poller.addReader(sz, nb)
                nb_peer.send(b'2')
            else:
                poller.addWriter(sz, nb)
            served = 0
            for _ in range(4):
                n0 = len(seen)
                iterate()
                if any(n == ev and o is nb and ch == ('z',) for n, o, ch in seen[n0:]):
                    served += 1
            stale = [(n, ch) for n, o, ch in seen if o is a and n in ('_read', '_write')]
            wrong = [(n, ch) for n, o, ch in seen if o is nb and ch != ('z',)]
            clause = 'COMPLETE_READ' if role == 'reader' else 'COMPLETE_WRITE'
            failed = False
            if served < 3:
                failed = True
                b.fail(case, clause, {'poller': pname, 'note': 'a newly registered, ready object whose descriptor number had belonged to an object closed '
                                      'without discard() was not reported', 'iterations_served': served, 'events': [(n, 'new' if o is nb else 'dead' if o is a else '?', ch) for n, o, ch in seen][:8],
                                      'exceptions': excs[:2]}, dedup='objreuse')
            if stale:
                failed = True
                b.fail(case, 'NO_EVENT_FOR_CLOSED', {'poller': pname, 'events_for_the_dead_object': stale[:4]}, dedup='objreuse')
            if wrong:
                failed = True
                b.fail(case, 'ADDRESS', {'poller': pname, 'events_for_the_new_object_on_other_channels': wrong[:4]}, dedup='objreuse')
            if excs:
                failed = True
                b.fail(case, 'POLLER_RAISED', {'poller': pname, 'exceptions': excs[:3]}, dedup='objreuse')
            if not failed:
                b.ok(clause)
                b.ok('NO_EVENT_FOR_CLOSED')
                b.ok('ADDRESS')
            for so in (a_peer, nb, nb_peer):
                try:
                    so.close()
                except OSError:
                    pass
            import os
            for fd in (poller._ctrl_recv, poller._ctrl_send):
                try:
                    os.close(fd)
                except OSError:
                    pass


def run_batch(spec):
    import circuits  # noqa: F401
    b = Batch(PROPERTY)
    if spec['kind'] == 'corpus':
        for case in corpus():
            evaluate_case(b, case)
        inselect_cases(b)
        intfd_cases(b)
        objreuse_cases(b)
    elif spec['kind'] == 'random':
        rng = random.Random(spec['seed'])
        for _ in range(spec['n']):
            evaluate_case(b, gen_raw(rng))
    else:
        rng = random.Random(spec['seed'])
        for _ in range(spec['n']):
            evaluate_case(b, gen_dlg(rng))
    return b.result()


def run_replay(case):
    import circuits  # noqa: F401
    b = Batch(PROPERTY)
    evaluate_case(b, unjson(case))
    return b.result()

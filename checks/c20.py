"""C20 - authentication, session binding and gateway trust are sound.

Runtime monitoring of the real circuits.web.tools.check_auth/basic_auth/digest_auth,
circuits.web.sessions.Sessions and circuits.web.dispatchers.VirtualHosts.  The oracle never
re-computes what the code under test computes: Authorization headers are *built* from a declarative
recipe by the independent RFC 2617/7617 builder vlib/ref_auth.py, so whether a header carries
credentials that verify is known from the recipe.  See DESIGN.md section 4, C20.
"""
import hashlib
import json
import random
import re

from vlib.batch import Batch, unjson

PROPERTY = 'C20'
LEVEL = 'exploration'
RULE = ('fixed corpus (one case per anchored mechanism: every scheme/encrypt/users-table form, every required digest field missing, '
        'qop/algorithm variants, guessable passwords of absent users, stolen/forged session cookies, every gateway configuration) + an '
        'exhaustive product over the digest grammar (dropped-field subsets x qop x algorithm x credential kind) + seeded random cases; an '
        'auth case is (user table, realm, method, uri, users-table form, encrypt, header recipe) driven through the functions directly and, '
        'for a sample, through HTTP+Dispatcher+Controller using the documented idiom; session and vhost cases also through circuits.web.wsgi.Application '
        '(hand-built PEP 3333 environs), with requests whose address-like headers claim another client\'s / a gateway\'s address, with Controller and JSONController applications, and with requests whose handler raises (answered 500) placed before other clients\' requests; non-trivial = an Authorization header is sent '
        '(auth) / some request presents a cookie it must not profit from while data is stored (session) / a forwarded host that maps to '
        'another prefix than Host is sent under a configured gateway list (vhost); distinct = hash of the declarative case')
ASSUMPTIONS = [
    'the "if" direction is asserted only for what the server\'s own challenge offers (Basic; Digest with algorithm absent/MD5 and qop absent/auth, '
    'scheme token case-insensitive, unknown extra directives ignored); valid credentials in a variant that was not offered (auth-int, MD5-sess, '
    'other algorithm names, the other scheme than the one the resource is protected with, stray nc/cnonce without qop, repairable base64) may be '
    'accepted or refused - only soundness is asserted for them',
    'a Digest header whose uri directive (consistently digested) differs from the request line, and nonces that the server never issued, are '
    'observed and counted but not asserted: the statement speaks of user table, realm, password and digest only',
    'an exception escaping check_auth (answered 500 by the server) counts as refused',
    'same client fingerprint = same (remote ip, User-Agent value, absent = empty); pairs whose ip+agent concatenations collide are observed, not asserted',
    'returning stored data to the owner and honouring X-Forwarded-Host for a trusted gateway are required to be OBSERVED (coverage counters), not asserted',
    'trusted_gateways=None (the documented default: everybody may forward) is not asserted',
    'workload restriction: a header is never both structurally malformed and built for an absent user with password "None" (two known defects would chain in the twin)',
]
REQUIRED = ['vhost_request_without_a_host_header', 'second_check_on_same_request', 'other_table_consulted_before_the_configured_one_ever_saw_the_credentials', 'ref_selfcheck_ok', 'direct_accept_digest_qop_auth', 'direct_accept_digest_rfc2069', 'direct_accept_basic_encrypt_str',
            'direct_accept_basic_encrypt_callable', 'users_callable_dict', 'users_callable_lookup',
            'refused_returning_false', 'refused_by_exception', 'refused_wrong_realm', 'refused_unknown_user', 'refused_wrong_password',
            'refused_tampered_response', 'refused_field_digest_mismatch', 'malformed_digest_header_sent', 'unknown_scheme_sent',
            'absent_user_password_None_sent', 'basic_default_encrypt_valid_sent',
            'e2e_secret_served', 'e2e_refused', 'e2e_challenge_401',
            'session_data_returned_to_owner', 'session_handler_raised_before_next_request', 'session_stolen_sid_other_ip', 'session_stolen_sid_other_agent', 'session_forged_sid',
            'session_fresh_ids_issued', 'session_e2e_steps',
            'vhost_forwarded_host_honoured_for_gateway', 'vhost_untrusted_remote_sends_forwarded_host', 'vhost_e2e_cases',
            'authcomp_cases', 'authcomp_two_instances_in_one_process', 'authcomp_stock_admin_account_tried_against_a_passwd_file',
            'authcomp_credentials_of_another_instance_tried', 'authcomp_valid_credentials_let_through',
            'vhost_wsgi_cases', 'vhost_untrusted_remote_claims_gateway_address', 'session_wsgi_steps', 'session_request_claims_another_address']
REQUIRED_OBLIGATIONS = ['AUTH_ONLY_IF', 'AUTH_IF', 'SESSION_BINDING', 'SESSION_FRESH_ID', 'GATEWAY_ONLY_IF']
WORKER_TIMEOUT = {'quick': 300, 'thorough': 1500}

SECRET = 'S3CR3T-c20-7f1e9a'

K_MALFORMED = 'auth.digest-malformed-truthy-httperror'
K_NONE = 'auth.unknown-user-none-password'
K_ENCRYPT = 'auth.basic-default-encrypt-typeerror'
K_GATEWAYS = 'vhost.trusted-gateways-discarded'

DIGEST_REQUIRED = ('username', 'realm', 'nonce', 'uri', 'response')


# =================================================================================================
# AUTH: recipe -> header text (reference builder) and recipe -> expectation (oracle)
# =================================================================================================
def request_uri(case):
    return case['path'] + ('?' + case['qs'] if case.get('qs') else '')


def digest_pairs(h):
    """Directive list [(k, v)] of a digest recipe, after drops/overrides/strays/tamper."""
    from vlib import ref_auth as R
    f = R.digest_fields(h['user'], h['realm'], h['password'], h['method'], h['uri'], h['nonce'], qop=h.get('qop'),
                        nc=h.get('nc', '00000001'), cnonce=h.get('cnonce', '0a4f113b'), algorithm=h.get('algorithm'),
                        opaque=h.get('opaque'))
    t = h.get('resp_tamper')
    r = f['response']
    if t == 'flip':
        f['response'] = ('0' if r[0] != '0' else '1') + r[1:]
    elif t == 'append':
        f['response'] = r + 'a'
    elif t == 'prepend':
        f['response'] = 'a' + r
    elif t == 'truncate':
        f['response'] = r[:-1]
    elif t == 'empty':
        f['response'] = ''
    elif t == 'onechar':
        f['response'] = r[5]
    elif t == 'reverse':
        f['response'] = r[::-1] if r[::-1] != r else 'f' * 32
    for k, v in (h.get('override') or {}).items():
        if k in f:
            f[k] = v
    for k in h.get('stray') or ():
        f.setdefault(k, {'nc': '00000001', 'cnonce': '0a4f113b'}.get(k, 'x'))
    for k in h.get('drop') or ():
        f.pop(k, None)
    return f


def header_text(h):
    from vlib import ref_auth as R
    if h is None:
        return None
    if 'raw' in h:
        return h['raw']
    if h['scheme'] == 'basic':
        import base64
        m = h.get('mangle')
        tok = R.basic_token(h['user'], h['password'], 'latin-1' if m == 'latin1' else 'utf-8')
        if m == 'nocolon':
            tok = base64.b64encode((h['user'] + h['password']).encode('utf-8')).decode('ascii')
        elif m == 'badb64':
            tok = tok.rstrip('=')
            tok = tok[:len(tok) - (len(tok) % 4) + 1] if len(tok) % 4 != 1 else tok   # length = 1 mod 4: never decodable
        elif m == 'empty':
            tok = ''
        elif isinstance(m, str) and m.startswith('stray'):
            # valid base64 whose decoded bytes are the user and password with bytes spliced in that are no valid UTF-8
            # (stray:<where>:<hex>  where = u<k> | p<k>: position k of the user / password bytes)
            _, where, hx = m.split(':')
            ub, pb = h['user'].encode('utf-8'), h['password'].encode('utf-8')
            k = int(where[1:])
            if where[0] == 'u':
                ub = ub[:k] + bytes.fromhex(hx) + ub[k:]
            else:
                pb = pb[:k] + bytes.fromhex(hx) + pb[k:]
            tok = base64.b64encode(ub + b':' + pb).decode('ascii')
        elif m == 'nospace':
            return h.get('token', 'Basic') + tok
        return h.get('token', 'Basic') + ' ' + tok
    f = digest_pairs(h)
    return R.render_digest(f, scheme=h.get('token', 'Digest'), quote_all=bool(h.get('quote_all')), sep=h.get('sep', ', '),
                           extra=[tuple(x) for x in (h.get('extra') or ())])


def digest_structure(h):
    """'ok' | 'missing' (cannot be verified at all) | 'stray' (nc/cnonce without qop: repairable)"""
    f = digest_pairs(h)
    if any(k not in f for k in DIGEST_REQUIRED):
        return 'missing'
    if h.get('qop') is not None and 'qop' not in f:
        return 'missing'                # the digest was computed with a qop the header no longer states
    if 'qop' in f and not ('nc' in f and 'cnonce' in f):
        return 'missing'
    if 'qop' not in f and ('nc' in f or 'cnonce' in f):
        # qop dropped from a header whose digest used it: the digest cannot verify; pure strays can
        return 'stray' if h.get('qop') is None else 'missing'
    return 'ok'


def md5hex(s):
    return hashlib.md5(s.encode('utf-8')).hexdigest()


def table_entry(case, user):
    """What the configured table holds for ``user`` (None if absent), given the encrypt convention."""
    pw = case['table'].get(user)
    if pw is None:
        return None
    if case['idiom'] == 'basic':
        e = case.get('encrypt', 'str')
        if e in ('default', 'md5b'):
            return md5hex(pw)
        if e == 'salted2':
            return hashlib.sha256(('%s:%s' % (user, pw)).encode('utf-8')).hexdigest()
    return pw


def expected(case):
    """'accept' | 'refuse' | 'either' - derived from the recipe only."""
    h = case['hdr']
    if h is None or 'raw' in h:
        return 'refuse'
    table = case['table']
    user, pw = h['user'], h['password']
    known = user in table
    if h['scheme'] == 'basic':
        m = h.get('mangle')
        if m in ('nocolon', 'empty', 'nospace') or (isinstance(m, str) and m.startswith('stray')):
            return 'refuse'       # (stray bytes: these are not the bytes of any user name / password of the table)
        creds = known and table[user] == pw
        if case['idiom'] != 'basic':
            # a Basic header sent to a Digest-protected resource (check_auth hashes it with the default encrypt)
            if creds or (known and md5hex(pw) == table[user]):
                return 'either'
            return 'refuse'
        if not creds:
            return 'refuse'
        if m in ('badb64', 'latin1'):
            return 'either'
        if h.get('token', 'Basic').lower() != 'basic':
            return 'refuse'
        return 'accept'
    # digest
    st = digest_structure(h)
    if st == 'missing':
        return 'refuse'
    base = digest_pairs(dict(h, override=None, drop=[], stray=[]))
    effective = any(k in base and base[k] != v for k, v in (h.get('override') or {}).items())
    clean = not h.get('resp_tamper') and not effective
    pw_ok = known and (pw == table[user] or (case['idiom'] == 'basic' and pw == table_entry(case, user)))
    creds = clean and pw_ok and h['realm'] == case['realm'] and h['method'] == case['method']
    if not creds:
        return 'refuse'
    if h.get('token', 'Digest').lower() != 'digest':
        return 'refuse'
    if st == 'stray' or case['idiom'] != 'digest' or h['uri'] != request_uri(case):
        return 'either'
    if h.get('algorithm') not in (None, 'MD5') or h.get('qop') not in (None, 'auth'):
        return 'either'
    if pw != table[user]:
        return 'either'
    return 'accept'


# -- configuration of the real functions -------------------------------------------------------------
def build_config(case):
    """(users argument, extra positional args for check_auth/basic_auth)"""
    real = {u: table_entry(case, u) for u in case['table']}
    form = case.get('users_form', 'dict')
    if form == 'dict':
        users = real
    elif form == 'callable_dict':
        users = lambda: dict(real)                      # noqa: E731
    else:
        users = lambda username: real.get(username)     # noqa: E731
    extra = ()
    if case['idiom'] == 'basic':
        e = case.get('encrypt', 'str')
        if e == 'str':
            extra = (str,)
        elif e == 'md5b':
            extra = (lambda v: hashlib.md5(v.encode('utf-8')).hexdigest(),)
        elif e == 'salted2':
            extra = (lambda v, u: hashlib.sha256(('%s:%s' % (u, v)).encode('utf-8')).hexdigest(),)
        # 'default': nothing passed
    return users, extra


def classify(r):
    if r is True:
        return 'True'
    if r is False:
        return 'False'
    if r is None:
        return 'None'
    return ('truthy:' if r else 'falsy:') + type(r).__name__


def observe_auth_direct(case):
    from circuits.web import tools
    from circuits.web.headers import Headers
    from circuits.web.wrappers import Request, Response
    from vlib.inject import FakeSock, Wire
    realm = case['realm']
    text = header_text(case['hdr'])
    server = Wire()
    socks = []

    def fresh():
        hs = Headers([('Host', 'test.example')])
        if text is not None:
            hs['Authorization'] = text
        s = FakeSock()
        socks.append(s)
        req = Request(s, case['method'], 'http', case['path'], (1, 1), case.get('qs', ''), hs, server=server)
        return req, Response(req)

    xxx = tools.basic_auth if case['idiom'] == 'basic' else tools.digest_auth
    obs = {}

    def another_table_first():
        # 4. the same request object checked twice: first against ANOTHER area's table/realm in which these credentials do verify (a
        #    site-wide filter; the same user before a password change), then against the configured one - the second verdict must not
        #    depend on the first.  With case['prior_first'] this comes before everything else the process does with these credentials.
        h = case['hdr']
        obs['second_check'] = None
        if h and 'user' in h and 'password' in h and 'raw' not in h:
            req, resp = fresh()
            other_realm = h.get('realm', realm) if h.get('scheme') == 'digest' else realm + '-other-area'
            other_users = {h['user']: h['password']}
            try:
                first = tools.check_auth(req, resp, other_realm, other_users, *((str,) if h.get('scheme') == 'basic' else ()))
            except Exception:
                first = None
            if first is True:
                users, extra = build_config(case)
                try:
                    obs['second_check'] = classify(tools.check_auth(req, resp, realm, users, *extra))
                except Exception as e:
                    obs['second_check'] = 'raised:' + type(e).__name__
                obs['second_login'] = req.login
    if case.get('prior_first'):
        another_table_first()
    # 1. check_auth on its own
    users, extra = build_config(case)
    req, resp = fresh()
    try:
        obs['check_auth'] = classify(tools.check_auth(req, resp, realm, users, *extra))
    except Exception as e:
        obs['check_auth'] = 'raised:' + type(e).__name__
    obs['login'] = req.login
    # 2. basic_auth / digest_auth on its own (None = let the request through)
    users, extra = build_config(case)
    req, resp = fresh()
    try:
        obs['xxx_auth'] = classify(xxx(req, resp, realm, users, *extra))
        obs['xxx_status'] = int(resp.status)
        obs['challenge'] = resp.headers.get('WWW-Authenticate')
    except Exception as e:
        obs['xxx_auth'] = 'raised:' + type(e).__name__
    obs['xxx_login'] = req.login
    # 3. the documented idiom
    users, extra = build_config(case)
    req, resp = fresh()
    try:
        if tools.check_auth(req, resp, realm, users, *extra):
            r = SECRET
        else:
            r = xxx(req, resp, realm, users, *extra)
        obs['idiom'] = 'SECRET' if r == SECRET else classify(r)
    except Exception as e:
        obs['idiom'] = 'raised:' + type(e).__name__
    obs['idiom_login'] = req.login
    if not case.get('prior_first'):
        another_table_first()
    for s in socks:
        s.close()
    signals = {
        'check_auth truthy after an earlier successful check against another table/realm':
            obs['second_check'] is not None and (obs['second_check'] == 'True' or obs['second_check'].startswith('truthy:')) and
            not (obs['check_auth'] == 'True'),
        'check_auth truthy': obs['check_auth'] == 'True' or obs['check_auth'].startswith('truthy:'),
        'request.login set': bool(obs['login']) or bool(obs['xxx_login']) or bool(obs['idiom_login']),
        'xxx_auth let it through': obs['xxx_auth'] == 'None',
        'idiom returned the secret': obs['idiom'] == 'SECRET',
    }
    obs['authenticated_any'] = sorted(k for k, v in signals.items() if v)
    first_key = 'check_auth truthy after an earlier successful check against another table/realm'
    obs['authenticated_all'] = (all(v for k, v in signals.items() if k != first_key) and obs['login'] == case['hdr']['user']
                                if case['hdr'] and 'user' in case['hdr'] else False)
    return obs


def build_auth_tree(case):
    from circuits.web import Controller, tools
    from circuits.web.dispatchers import Dispatcher
    from circuits.web.http import HTTP
    from vlib.inject import Wire
    realm = case['realm']
    xxx = tools.basic_auth if case['idiom'] == 'basic' else tools.digest_auth
    logins = []

    def idiom(self):
        users, extra = build_config(case)
        try:
            if tools.check_auth(self.request, self.response, realm, users, *extra):
                return SECRET
            return xxx(self.request, self.response, realm, users, *extra)
        finally:
            logins.append(self.request.login)

    Root = type('Root', (Controller,), {'index': lambda self, *a, **kw: idiom(self), 'area': lambda self, *a, **kw: idiom(self)})
    w = Wire()
    HTTP(w).register(w)
    Dispatcher().register(w)
    Root().register(w)
    w.settle()
    return w, logins


def observe_auth_e2e(case):
    from vlib.inject import FakeSock
    w, logins = build_auth_tree(case)
    text = header_text(case['hdr'])
    lines = ['%s %s HTTP/1.1' % (case['method'], request_uri(case)), 'Host: test.example']
    if text is not None:
        lines.append('Authorization: ' + text)
    if case['method'] in ('POST', 'PUT'):
        lines.append('Content-Length: 0')
    raw = ('\r\n'.join(lines) + '\r\n\r\n').encode('ascii')
    s = FakeSock()
    w.feed(s, [raw])
    out = w.written(s)
    s.close()
    m = re.match(rb'HTTP/1\.[01] (\d{3}) ', out)
    head, _, body = out.partition(b'\r\n\r\n')
    obs = {'status': int(m.group(1)) if m else None, 'secret_in_response': SECRET.encode() in out,
           'body_is_secret': body == SECRET.encode(), 'logins': logins[:3], 'exceptions': len(w.exceptions),
           'challenge': b'www-authenticate:' in head.lower()}
    return obs


def e2e_capable(case):
    text = header_text(case['hdr'])
    if case['method'] not in ('GET', 'POST', 'PUT', 'DELETE'):
        return False
    if text is None:
        return True
    try:
        text.encode('ascii')
    except UnicodeEncodeError:
        return False
    return text == text.strip() and '\r' not in text and '\n' not in text


def run_auth(case):
    """-> (problems [(clause, detail, dedup)], oks {clause: n}, marks set, nontrivial)"""
    exp = expected(case)
    h = case['hdr']
    problems, oks, marks = [], {}, set()
    e2e = case.get('via') == 'e2e' and e2e_capable(case)
    if e2e:
        obs = observe_auth_e2e(case)
        if obs['status'] is None:
            raise Inconclusive('no response written for %r' % (header_text(h),))
        authed_any = obs['secret_in_response'] or any(obs['logins'])
        authed_all = obs['status'] == 200 and obs['body_is_secret'] and bool(h) and obs['logins'][:1] == [h.get('user')]
        marks.add('e2e_secret_served' if obs['secret_in_response'] else 'e2e_refused')
        if obs['status'] == 401 and obs['challenge']:
            marks.add('e2e_challenge_401')
    else:
        obs = observe_auth_direct(case)
        if obs.get('second_check') is not None:
            marks.add('second_check_on_same_request')
            if case.get('prior_first'):
                marks.add('other_table_consulted_before_the_configured_one_ever_saw_the_credentials')
        authed_any = bool(obs['authenticated_any'])
        authed_all = obs['authenticated_all']
    tag = '%s/%s' % (h['scheme'] if h and 'scheme' in h else ('raw' if h else 'none'), case['idiom'])
    if exp == 'refuse':
        if authed_any:
            problems.append(('AUTH_ONLY_IF', {'expected': 'refused', 'header': header_text(h), 'observed': obs,
                                              'why_invalid': why_invalid(case)}, 'served:' + tag))
        else:
            oks['AUTH_ONLY_IF'] = 1
            if not e2e:
                if obs['check_auth'] == 'False':
                    marks.add('refused_returning_false')
                if obs['check_auth'].startswith('raised:'):
                    marks.add('refused_by_exception')
            for m in why_invalid(case):
                marks.add('refused_' + m)
    elif exp == 'accept':
        if not authed_all:
            problems.append(('AUTH_IF', {'expected': 'authenticated as %r' % h['user'], 'header': header_text(h), 'observed': obs},
                             'refused:' + tag + ':' + str(case.get('encrypt'))))
        else:
            oks['AUTH_IF'] = 1
            if not e2e:
                if h['scheme'] == 'digest':
                    marks.add('direct_accept_digest_qop_auth' if h.get('qop') == 'auth' else 'direct_accept_digest_rfc2069')
                else:
                    e = case.get('encrypt', 'str')
                    marks.add({'str': 'direct_accept_basic_encrypt_str', 'default': 'direct_accept_basic_encrypt_default'}.get(
                        e, 'direct_accept_basic_encrypt_callable'))
                if case.get('users_form') in ('callable_dict', 'callable_lookup'):
                    marks.add('users_' + case['users_form'])
    else:
        marks.add('not_asserted_variant_' + ('accepted' if authed_any else 'refused'))
        if authed_any and h.get('scheme') == 'digest' and h['uri'] != request_uri(case):
            marks.add('observed_digest_uri_differs_from_request_line_accepted')
    # what was sent (coverage of the grammar)
    if h is not None and 'raw' in h:
        marks.add('unknown_scheme_sent')
        if h['raw'].lower().startswith('digest '):
            marks.add('malformed_digest_header_sent')
    if h and h.get('scheme') == 'digest':
        if digest_structure(h) != 'ok':
            marks.add('malformed_digest_header_sent')
        if h['user'] not in case['table'] and h['password'] == 'None':
            marks.add('absent_user_password_None_sent')
        if h.get('qop') not in (None, 'auth'):
            marks.add('digest_qop_variant_sent')
        if h.get('algorithm') not in (None, 'MD5'):
            marks.add('digest_algorithm_variant_sent')
    if h and h.get('scheme') == 'basic' and case['idiom'] == 'basic' and case.get('encrypt') == 'default' and exp == 'accept':
        marks.add('basic_default_encrypt_valid_sent')
    return problems, oks, marks, h is not None


def why_invalid(case):
    """Labels for coverage counters: which kinds of invalidity a refused case carries."""
    h = case['hdr']
    out = []
    if not h or 'raw' in h:
        return out
    if h['user'] not in case['table']:
        out.append('unknown_user')
    elif h['password'] != case['table'][h['user']]:
        out.append('wrong_password')
    if h['scheme'] == 'digest':
        if h['realm'] != case['realm']:
            out.append('wrong_realm')
        if h['method'] != case['method']:
            out.append('wrong_method')
        if h.get('resp_tamper'):
            out.append('tampered_response')
        base = digest_pairs(dict(h, override=None, drop=[], stray=[]))
        if any(k in base and base[k] != v for k, v in (h.get('override') or {}).items()):
            out.append('field_digest_mismatch')
    return out


def auth_known(case):
    """Candidate (key, neutralised twin case) pairs for a failing auth case."""
    h = case['hdr']
    out = []
    if h and 'raw' in h and h['raw'].lower().startswith('digest '):
        # a Digest header with (nearly) no directives: the twin states all required ones, with values that do not verify
        out.append((K_MALFORMED, dict(case, hdr=D('nobody', 'x', realm=case['realm'], method=case['method'], uri=request_uri(case)))))
    if h and h.get('scheme') == 'digest' and digest_structure(h) != 'ok':
        twin = dict(case, hdr=dict(h, drop=[], stray=[]))
        out.append((K_MALFORMED, twin))
    if h and h.get('scheme') == 'digest' and h['user'] not in case['table'] and h['password'] == 'None':
        out.append((K_NONE, dict(case, hdr=dict(h, password='None.'))))
    if h and h.get('scheme') == 'basic' and case['idiom'] == 'basic' and case.get('encrypt') == 'default':
        out.append((K_ENCRYPT, dict(case, encrypt='md5b')))
    return out


# =================================================================================================
# SESSIONS
# =================================================================================================
def wsgi_environ(remote_ip, path, headers, qs='', env_order='addr-first'):
    """A PEP 3333 environ built by hand (not by the package): REMOTE_ADDR is the peer's address as the server saw it, every request
    header becomes HTTP_<NAME>.  env_order: whether REMOTE_ADDR precedes or follows the HTTP_* keys (both occur in real servers)."""
    import io
    base = {'REQUEST_METHOD': 'GET', 'SERVER_NAME': 'test.example', 'SERVER_PORT': '80', 'SERVER_PROTOCOL': 'HTTP/1.1', 'QUERY_STRING': qs,
            'SCRIPT_NAME': '', 'PATH_INFO': path, 'CONTENT_TYPE': '', 'CONTENT_LENGTH': '', 'wsgi.version': (1, 0), 'wsgi.input': io.BytesIO(b''),
            'wsgi.errors': io.StringIO(), 'wsgi.multithread': False, 'wsgi.multiprocess': False, 'wsgi.run_once': False, 'wsgi.url_scheme': 'http'}
    http = {'HTTP_' + k.upper().replace('-', '_'): v for k, v in headers}
    addr = {'REMOTE_ADDR': remote_ip, 'REMOTE_PORT': '45000'}
    env = {}
    for part in ((base, addr, http) if env_order == 'addr-first' else (base, http, addr)):
        env.update(part)
    return env


def wsgi_call(app, env):
    got = {}

    def start_response(status, headers, exc_info=None):
        got['status'], got['headers'] = status, headers
    body = app(env, start_response)
    if isinstance(body, (bytes, str)):
        body = [body]
    data = b''.join(x if isinstance(x, bytes) else str(x).encode('utf-8') for x in body)
    return got.get('status', ''), got.get('headers', []), data


def fp_of(case, client):
    ip, agent = client['ip'], client.get('agent') or ''
    return ip + agent if case.get('fp_concat') else (ip, agent)


class SessionWorld:
    """Drives the real Sessions component either with hand-built Request objects or through HTTP."""

    def __init__(self, case):
        from circuits.web import Controller, Sessions
        from vlib.inject import Wire
        self.case = case
        self.name = case.get('cookie_name', 'circuits')
        self.w = Wire()
        self.sessions = Sessions(self.name) if self.name != 'circuits' else Sessions()
        self.e2e = case.get('via') == 'e2e'
        self.wsgi = case.get('via') == 'wsgi'
        if self.wsgi:
            from circuits.web.wsgi import Application

            index, boom, base = self._handlers()
            self.w = Application()
            type('Root', (base,), {'index': index, 'boom': boom})().register(self.w)
        if self.e2e:
            from circuits.web.dispatchers import Dispatcher
            from circuits.web.http import HTTP

            index, boom, base = self._handlers()
            HTTP(self.w).register(self.w)
            Dispatcher().register(self.w)
            type('Root', (base,), {'index': index, 'boom': boom})().register(self.w)
        self.sessions.register(self.w)
        if self.wsgi:
            while len(self.w):
                self.w.flush()
        else:
            self.w.settle()

    def _handlers(self):
        """The request handlers of the application: `index` shows (and stores) session data, `boom` looks at its session and raises.
        case['ctl'] == 'json': a JSONController, whose handlers return the document instead of its text."""
        from circuits.web import Controller, JSONController
        as_json = self.case.get('ctl') == 'json'

        def index(ctl, *args, w=None, **kw):
            seen = dict(ctl.session)
            if w:
                with ctl.session as d:
                    d['k'] = w
            doc = {'sid': ctl.session.sid, 'data': seen}
            return doc if as_json else json.dumps(doc)

        def boom(ctl, *args, **kw):
            dict(ctl.session)
            raise RuntimeError('application error')
        return index, boom, (JSONController if as_json else Controller)

    def fail_request(self, client, cookie):
        """A request of `client` whose handler raises (answered 500, nothing to judge in itself) -> True if it was answered 500"""
        from vlib.inject import FakeSock
        if self.wsgi:
            headers = [('Host', 'test.example')]
            if client.get('agent') is not None:
                headers.append(('User-Agent', client['agent']))
            if cookie is not None:
                headers.append(('Cookie', '%s=%s' % (self.name, cookie)))
            env = wsgi_environ(client['ip'], '/boom', headers, env_order=self.case.get('env_order', 'addr-first'))
            status, rh, body = wsgi_call(self.w, env)
            return status.startswith('500')
        if self.e2e:
            sock = FakeSock(peer=(client['ip'], 40000 + len(client['ip'])))
            try:
                lines = ['GET /boom HTTP/1.1', 'Host: test.example']
                if client.get('agent') is not None:
                    lines.append('User-Agent: ' + client['agent'])
                if cookie is not None:
                    lines.append('Cookie: %s=%s' % (self.name, cookie))
                self.w.feed(sock, [('\r\n'.join(lines) + '\r\n\r\n').encode('ascii')])
                return self.w.written(sock).startswith(b'HTTP/1.1 500')
            finally:
                sock.close()
        return False

    def step(self, client, cookie, write, hdrs=()):
        """-> (sid given to the request, data visible to the request, cookie value sent back)"""
        from vlib.inject import FakeSock
        sock = FakeSock(peer=(client['ip'], 40000 + len(client['ip'])))
        try:
            if self.wsgi:
                from http.cookies import SimpleCookie
                headers = [('Host', 'test.example')] + [tuple(h) for h in hdrs]
                if client.get('agent') is not None:
                    headers.append(('User-Agent', client['agent']))
                if cookie is not None:
                    headers.append(('Cookie', 'other=1; %s=%s' % (self.name, cookie)))
                env = wsgi_environ(client['ip'], '/', headers, qs=('w=' + write) if write else '', env_order=self.case.get('env_order', 'addr-first'))
                status, rh, body = wsgi_call(self.w, env)
                if not status.startswith('200'):
                    raise Inconclusive('session wsgi request not answered 200: %r %r' % (status, body[:80]))
                doc = json.loads(body.decode())
                sent = None
                for k, v in rh:
                    if k.lower() == 'set-cookie':
                        c = SimpleCookie()
                        c.load(v)
                        if self.name in c:
                            sent = c[self.name].value
                return doc['sid'], doc['data'], sent
            if self.e2e:
                from http.cookies import SimpleCookie
                lines = ['GET /%s HTTP/1.1' % ('?w=' + write if write else ''), 'Host: test.example']
                if client.get('agent') is not None:
                    lines.append('User-Agent: ' + client['agent'])
                if cookie is not None:
                    lines.append('Cookie: other=1; %s=%s' % (self.name, cookie))
                lines += ['%s: %s' % tuple(h) for h in hdrs]
                self.w.feed(sock, [('\r\n'.join(lines) + '\r\n\r\n').encode('ascii')])
                out = self.w.written(sock)
                head, _, body = out.partition(b'\r\n\r\n')
                if not out.startswith(b'HTTP/1.1 200'):
                    raise Inconclusive('session e2e request not answered 200: %r' % out[:80])
                doc = json.loads(body.decode())
                sent = None
                for line in head.decode('latin-1').split('\r\n'):
                    if line.lower().startswith('set-cookie:'):
                        c = SimpleCookie()
                        c.load(line.split(':', 1)[1].strip())
                        if self.name in c:
                            sent = c[self.name].value
                return doc['sid'], doc['data'], sent
            from circuits.web.events import request as request_event
            from circuits.web.headers import Headers
            from circuits.web.wrappers import Request, Response
            hs = Headers([('Host', 'test.example')])
            if client.get('agent') is not None:
                hs['User-Agent'] = client['agent']
            if cookie is not None:
                hs['Cookie'] = 'other=1; %s=%s' % (self.name, cookie)
            for k, v in hdrs:
                hs[k] = v
            req = Request(sock, 'GET', 'http', '/', (1, 1), '', hs, server=self.w)
            resp = Response(req)
            self.w.inject(request_event(req, resp))
            sess = req.session
            seen = dict(sess)
            if write:
                with sess as d:
                    d['k'] = write
            sent = resp.cookie[self.name].value if self.name in resp.cookie else None
            return sess.sid, seen, sent
        finally:
            sock.close()


def cookie_text(spec, i, last, clients, case):
    """The cookie value step presents.  spec: None | ['own'] | ['of', j] | ['forged', text] | ['graft', j]
    (uuid part of j's id + fingerprint part of the presenter's own id) | ['suffix', j, text]"""
    if spec is None:
        return None, 'none'
    kind = spec[0]
    if kind == 'own':
        return (last.get(i), 'own') if last.get(i) else (None, 'none')
    if kind == 'of':
        return (last.get(spec[1]), 'of') if last.get(spec[1]) else (None, 'none')
    if kind == 'forged':
        return spec[1], 'forged'
    if kind == 'graft':
        a, b = last.get(spec[1]), last.get(i)
        if a and b and '/' in a and '/' in b:
            return a.split('/', 1)[0] + '/' + b.split('/', 1)[1], 'forged'
        return 'graft', 'forged'
    if kind == 'suffix':
        a = last.get(spec[1])
        return ((a + spec[2]) if a else 'zz' + spec[2]), 'forged'
    raise ValueError(spec)


def run_session(case):
    problems, oks, marks = [], {'SESSION_BINDING': 0, 'SESSION_FRESH_ID': 0}, set()
    world = SessionWorld(case)
    clients = case['clients']
    issued = {}      # sid -> fingerprint it was issued to / adopted by
    data = {}        # sid -> dict stored under it (model)
    last = {}        # client index -> last sid it was given
    tokens = set()
    issued_pair = {}  # sid -> (ip, agent) of the request it was issued to
    nontrivial = False
    for n, st in enumerate(case['steps']):
        i = st['client']
        cl = clients[i]
        fp = fp_of(case, cl)
        presented, kind = cookie_text(st.get('cookie'), i, last, clients, case)
        write = st.get('write')
        hdrs = []
        if st.get('claims') is not None:
            # headers by which a client may CLAIM somebody else's address; the fingerprint is the peer address the server saw
            other = clients[st['claims']]['ip']
            hdrs = [[h, other] for h in ('Remote-Addr', 'X-Forwarded-For', 'X-Real-IP', 'Remote-Host')]
            marks.add('session_request_claims_another_address')
        sid, seen, sent = world.step(cl, presented, write, hdrs)
        if world.e2e:
            marks.add('session_e2e_steps')
        if world.wsgi:
            marks.add('session_wsgi_steps')
        legit = presented is not None and issued.get(presented) == fp
        ctx = {'step': n, 'client': cl, 'presented': presented, 'presented_kind': kind, 'got_sid': sid, 'got_data': seen,
               'cookie_sent_back': sent}
        if legit:
            if sid == presented and seen and seen == data.get(presented):
                marks.add('session_data_returned_to_owner')
                if case.get('fp_concat') and (cl['ip'], cl.get('agent') or '') != issued_pair.get(presented):
                    marks.add('observed_session_shared_by_colliding_ip_agent_concatenation')
            if sid not in issued:
                issued[sid] = fp
                issued_pair[sid] = (cl['ip'], cl.get('agent') or '')
        else:
            if any(data.values()):
                if presented is not None:
                    nontrivial = True
                if kind == 'of' and presented in issued:
                    o_ip, o_agent = issued_pair[presented]
                    if o_ip != cl['ip']:
                        marks.add('session_stolen_sid_other_ip')
                    if o_agent != (cl.get('agent') or ''):
                        marks.add('session_stolen_sid_other_agent')
            if kind == 'forged':
                marks.add('session_forged_sid')
            # BINDING: nothing stored by anybody may be visible
            leaked = [v for v in seen.values() if v in tokens] if isinstance(seen, dict) else ['?']
            if leaked or seen:
                problems.append(('SESSION_BINDING', dict(ctx, leaked=leaked, owner=issued_pair.get(presented)), 'leak:' + kind))
            else:
                oks['SESSION_BINDING'] += 1
            # FRESH: the id is none of the ids issued so far, and the cookie sent back carries it
            if sid in issued or sid in data or sent != sid or not sid:
                problems.append(('SESSION_FRESH_ID', dict(ctx, previously_issued=sid in issued), 'stale:' + kind))
            else:
                oks['SESSION_FRESH_ID'] += 1
                marks.add('session_fresh_ids_issued')
            issued[sid] = fp
            issued_pair[sid] = (cl['ip'], cl.get('agent') or '')
        last[i] = sid
        if write:
            tokens.add(write)
            data.setdefault(sid, {})['k'] = write
        if st.get('then_fail') and (world.e2e or world.wsgi):
            # the same client, with the id it now holds, asks for a page whose handler raises; what the NEXT requests see is judged as usual
            if world.fail_request(cl, sid):
                marks.add('session_handler_raised_before_next_request')
    return problems, {k: v for k, v in oks.items() if v}, marks, nontrivial



# =================================================================================================
# VIRTUAL HOSTS
# =================================================================================================
def vhost_route(case, xfh, host=None, force_attr=False):
    """What the real VirtualHosts makes of one request: request.path (direct) or the controller reached (e2e)."""
    from circuits.web.dispatchers import VirtualHosts
    from vlib.inject import FakeSock, Wire
    gw = case['gateways']
    if gw is not None:
        gw = {'list': list, 'tuple': tuple, 'set': set}[case.get('gw_type', 'list')](gw)
    w = Wire()
    vh = VirtualHosts(dict(case['domains'])) if gw is None and case.get('gw_omitted') else VirtualHosts(dict(case['domains']), gw)
    if force_attr:
        vh.trusted_gateways = gw        # the neutralised twin: what __init__ should have stored
    host = case['host'] if host is None else host
    sock = FakeSock(peer=(case['remote'], 45000))
    claim = [[hn, case['claims']] for hn in ('Remote-Addr', 'X-Real-IP', 'Remote-Host')] if case.get('claims') else []
    try:
        if case.get('via') == 'wsgi':
            from circuits.web import Controller
            from circuits.web.wsgi import Application
            app = Application()
            vh.register(app)
            for chan in ['/'] + sorted({'/' + p for p in case['domains'].values()}):
                type('C', (Controller,), {'channel': chan, 'index': (lambda c: lambda self, *a, **kw: 'AT ' + c)(chan),
                                          'x': (lambda c: lambda self, *a, **kw: 'AT ' + c + ' x')(chan)})().register(app)
            while len(app):
                app.flush()
            headers = ([] if case.get('no_host') else [('Host', host)]) + ([('X-Forwarded-Host', xfh)] if xfh is not None else []) + \
                ([('X-Forwarded-For', case['xff'])] if case.get('xff') else []) + [tuple(x) for x in claim]
            status, _rh, body = wsgi_call(app, wsgi_environ(case['remote'], case['path'], headers, env_order=case.get('env_order', 'addr-first')))
            return status[:3] + ' ' + body.decode('latin-1')[:40]
        if case.get('via') == 'e2e':
            from circuits.web import Controller
            from circuits.web.dispatchers import Dispatcher
            from circuits.web.http import HTTP
            HTTP(w).register(w)
            vh.register(w)
            Dispatcher().register(w)
            for chan in ['/'] + sorted({'/' + p for p in case['domains'].values()}):
                type('C', (Controller,), {'channel': chan, 'index': (lambda c: lambda self, *a, **kw: 'AT ' + c)(chan),
                                          'x': (lambda c: lambda self, *a, **kw: 'AT ' + c + ' x')(chan)})().register(w)
            w.settle()
            lines = ['GET %s HTTP/1.1' % case['path'], 'Host: ' + host]
            if case.get('no_host'):
                lines = ['GET %s HTTP/1.0' % case['path']]      # (an HTTP/1.0 request need not name a host)
            if xfh is not None:
                lines.append('X-Forwarded-Host: ' + xfh)
            if case.get('xff'):
                lines.append('X-Forwarded-For: ' + case['xff'])
            lines += ['%s: %s' % tuple(x) for x in claim]
            w.feed(sock, [('\r\n'.join(lines) + '\r\n\r\n').encode('ascii')])
            out = w.written(sock)
            if not out.startswith((b'HTTP/1.1 ', b'HTTP/1.0 ')):
                raise Inconclusive('vhost e2e: no response')
            return out[9:12].decode() + ' ' + out.partition(b'\r\n\r\n')[2].decode('latin-1')[:40]
        from circuits.web.events import request as request_event
        from circuits.web.headers import Headers
        from circuits.web.wrappers import Request, Response
        vh.register(w)
        w.settle()
        hs = Headers([] if case.get('no_host') else [('Host', host)])
        if xfh is not None:
            hs['X-Forwarded-Host'] = xfh
        if case.get('xff'):
            hs['X-Forwarded-For'] = case['xff']     # claims to come from a gateway: must not matter
        for k, v in claim:
            hs[k] = v
        req = Request(sock, 'GET', 'http', case['path'], (1, 1), '', hs, server=w)
        w.inject(request_event(req, Response(req)))
        return req.path
    finally:
        sock.close()


def run_vhost(case, force_attr=False):
    problems, oks, marks = [], {}, set()
    if case.get('via') == 'wsgi' and case.get('no_host'):
        case = dict(case, no_host=False)      # (the WSGI front end builds its Request from HTTP_HOST; a gateway always provides one)
    if case.get('via') == 'e2e':
        marks.add('vhost_e2e_cases')
    if case.get('via') == 'wsgi':
        marks.add('vhost_wsgi_cases')
    if case.get('claims') and case['gateways'] and case['claims'] in case['gateways'] and case['remote'] not in case['gateways']:
        marks.add('vhost_untrusted_remote_claims_gateway_address')
    with_h = vhost_route(case, case['xfh'], force_attr=force_attr)
    without = vhost_route(case, None, force_attr=force_attr)
    first = (case['xfh'] or '').split(',')[0].strip().lower()
    as_host = vhost_route(dict(case, no_host=False), None, host=first, force_attr=force_attr) if first else without
    if case.get('no_host'):
        marks.add('vhost_request_without_a_host_header')
    visible = as_host != without          # honouring the header would be observable
    gw = case['gateways']
    nontrivial = False
    if gw is None:
        marks.add('vhost_default_no_gateway_list_not_asserted')
    elif case['remote'] in gw:
        if visible and with_h == as_host:
            marks.add('vhost_forwarded_host_honoured_for_gateway')
    else:
        if case['xfh'] is not None:
            marks.add('vhost_untrusted_remote_sends_forwarded_host')
        nontrivial = visible
        if with_h != without:
            problems.append(('GATEWAY_ONLY_IF', {'remote': case['remote'], 'trusted_gateways': gw, 'x_forwarded_host': case['xfh'],
                                                 'routing_with_header': with_h, 'routing_without_header': without}, 'untrusted-honoured'))
        else:
            oks['GATEWAY_ONLY_IF'] = 1
    return problems, oks, marks, nontrivial


# =================================================================================================
# the packaged Authentication component (circuits.web.main, the --passwd mode of the stock server)
# =================================================================================================
def run_authcomp(case):
    """One Authentication component per passwd file (each under its own root, all in this process); the table configured for an instance
    is exactly its file: 'user:md5hex(password)' lines.  A probe below the component shows which requests were let through."""
    import os
    import tempfile

    from circuits import BaseComponent, handler
    from circuits.web.events import request as request_event
    from circuits.web.headers import Headers
    from circuits.web.main import Authentication
    from circuits.web.wrappers import Request, Response
    from vlib.inject import FakeSock, Wire
    problems, oks, marks = [], {'AUTH_ONLY_IF': 0, 'AUTH_IF': 0}, {'authcomp_cases'}
    realm = case.get('realm', 'Secure Area')
    worlds, paths = [], []
    try:
        for table in case['files']:
            fd, path = tempfile.mkstemp(prefix='vc20-passwd-', dir='/var/tmp')
            with os.fdopen(fd, 'w') as f:
                f.write('\n'.join('%s:%s' % (u, md5hex(pw)) for u, pw in table.items()))
            paths.append(path)
            w = Wire()
            reached = []

            class Probe(BaseComponent):
                channel = 'web'

                @handler('request', priority=0)
                def _v_req(self, event, req, res, _r=reached):
                    _r.append(req.login)
                    return 'LET THROUGH'
            Authentication(realm=realm, passwd=path).register(w)
            Probe().register(w)
            w.settle()
            worlds.append((w, reached))
        if len(worlds) >= 2:
            marks.add('authcomp_two_instances_in_one_process')
        for r in case['requests']:
            w, reached = worlds[r['instance']]
            table = case['files'][r['instance']]
            if r['scheme'] == 'basic':
                text = header_text(B(r['user'], r['password']))
            else:
                # the stored value (md5 hex of the password) is the secret of the digest computation, as the component hands it to check_auth
                text = header_text(D(r['user'], md5hex(r['password']), realm=realm, uri='/secret', qop=r.get('qop', 'auth')))
            sock = FakeSock()
            try:
                hs = Headers([('Host', 'test.example'), ('Authorization', text)])
                req = Request(sock, 'GET', 'http', '/secret', (1, 1), '', hs, server=w)
                n0 = len(reached)
                w.inject(request_event(req, Response(req)))
                through = len(reached) > n0
            finally:
                sock.close()
            valid = r['user'] in table and table[r['user']] == r['password']
            ctx = {'instance': r['instance'], 'configured_users': sorted(table), 'scheme': r['scheme'], 'user': r['user'], 'password': r['password'],
                   'let_through': through}
            if not valid:
                if r['user'] == 'admin' and r['password'] == 'admin':
                    marks.add('authcomp_stock_admin_account_tried_against_a_passwd_file')
                if any(r['user'] in t and t[r['user']] == r['password'] for t in case['files']):
                    marks.add('authcomp_credentials_of_another_instance_tried')
                if through:
                    problems.append(('AUTH_ONLY_IF', dict(ctx, note='let through although the credentials match no entry of the table configured for this instance'),
                                     'authcomp:' + r['scheme']))
                else:
                    oks['AUTH_ONLY_IF'] += 1
            else:
                if through:
                    marks.add('authcomp_valid_credentials_let_through')
                    oks['AUTH_IF'] += 1
                else:
                    problems.append(('AUTH_IF', dict(ctx, note='valid credentials of a configured user refused'), 'authcomp:' + r['scheme']))
    finally:
        for pth in paths:
            try:
                os.unlink(pth)
            except OSError:
                pass
    return problems, {k: v for k, v in oks.items() if v}, marks, True


def authcomp_corpus():
    A, Bt = {'bob': 'builder', 'eve': 's3cret'}, {'carol': 'singer'}
    reqs = []
    for inst, (own, other) in enumerate(((A, Bt), (Bt, A))):
        for scheme in ('basic', 'digest'):
            for u, pw in own.items():
                reqs.append({'instance': inst, 'scheme': scheme, 'user': u, 'password': pw})
                reqs.append({'instance': inst, 'scheme': scheme, 'user': u, 'password': pw + 'x'})
            for u, pw in other.items():
                reqs.append({'instance': inst, 'scheme': scheme, 'user': u, 'password': pw})
            reqs.append({'instance': inst, 'scheme': scheme, 'user': 'admin', 'password': 'admin'})
            reqs.append({'instance': inst, 'scheme': scheme, 'user': 'mallory', 'password': 'None'})
    out = [{'kind': 'authcomp', 'files': [A, Bt], 'requests': reqs},
           {'kind': 'authcomp', 'files': [A], 'requests': [r for r in reqs if r['instance'] == 0]},
           {'kind': 'authcomp', 'files': [{'admin': 'changed'}], 'realm': 'Other Realm',
            'requests': [{'instance': 0, 'scheme': sc, 'user': 'admin', 'password': pw} for sc in ('basic', 'digest') for pw in ('admin', 'changed')]}]
    return out


def gen_authcomp(rng):
    names = ['bob', 'carol', 'eve', 'admin', 'root', 'x']
    files = []
    for _ in range(rng.choice([1, 2, 2, 3])):
        files.append({u: rng.choice(['pw', 'admin', 'builder', 's3cret', 'None']) for u in rng.sample(names, rng.randint(1, 3))})
    reqs = []
    for _ in range(rng.randint(3, 10)):
        i = rng.randrange(len(files))
        src = rng.choice(files)
        u = rng.choice(sorted(src) + ['admin', 'mallory'])
        pw = src.get(u, 'admin') if rng.random() < 0.7 else rng.choice(['admin', 'pw', 'wrong'])
        reqs.append({'instance': i, 'scheme': rng.choice(['basic', 'digest']), 'user': u, 'password': pw})
    return {'kind': 'authcomp', 'files': files, 'requests': reqs}


# =================================================================================================
# evaluation
# =================================================================================================
class Inconclusive(Exception):
    pass


def run_case(case, **kw):
    if case['kind'] == 'auth':
        return run_auth(case)
    if case['kind'] == 'session':
        return run_session(case)
    if case['kind'] == 'vhost':
        return run_vhost(case, **kw)
    if case['kind'] == 'authcomp':
        return run_authcomp(case)
    raise ValueError(case['kind'])


def twin_passes(case, **kw):
    def f():
        problems = run_case(case, **kw)[0]
        return not problems
    return f


def evaluate(b, case):
    try:
        problems, oks, marks, nontrivial = run_case(case)
    except Inconclusive as e:
        b.inconclusive_because(str(e))
        return
    except RuntimeError as e:
        if 'does not settle' in str(e):
            b.inconclusive_because(str(e))
            return
        raise
    b.case(case, nontrivial=nontrivial)
    for m in marks:
        b.reached(m)
    for clause, n in oks.items():
        b.ok(clause, n)
    seen = set()
    for clause, detail, dedup in problems:
        if (clause, dedup) in seen:
            continue
        seen.add((clause, dedup))
        known = []
        if case['kind'] == 'auth':
            known = [(k, twin_passes(t)) for k, t in auth_known(case)]
        elif case['kind'] == 'vhost' and case['gateways'] is not None:
            known = [(K_GATEWAYS, twin_passes(case, force_attr=True))]
        b.fail(case, clause, detail, known=known, dedup=dedup)


# =================================================================================================
# corpus
# =================================================================================================
TABLE = {'admin': 'admin', 'alice': 'wonder land', 'None': 'None'}


def A(hdr, idiom='digest', via='direct', **kw):
    c = {'kind': 'auth', 'via': via, 'idiom': idiom, 'table': dict(TABLE), 'realm': 'Test', 'method': 'GET', 'path': '/', 'qs': '',
         'users_form': 'dict', 'hdr': hdr}
    if idiom == 'basic':
        c['encrypt'] = 'str'
    c.update(kw)
    return c


def D(user='admin', password='admin', realm='Test', method='GET', uri='/', nonce='dcd98b7102dd2f0e8b11d0f600bfb0c093', qop='auth', **kw):
    h = {'scheme': 'digest', 'user': user, 'password': password, 'realm': realm, 'method': method, 'uri': uri, 'nonce': nonce, 'qop': qop}
    h.update(kw)
    return h


def B(user='admin', password='admin', **kw):
    h = {'scheme': 'basic', 'user': user, 'password': password}
    h.update(kw)
    return h


RAW_HEADERS = ['', 'Basic', 'Digest', 'Bearer abcdef', 'Negotiate YWRtaW46YWRtaW4=', 'NTLM', 'admin:admin', 'Token token="admin"',
               'Digest ', 'Basic ', 'Digestusername="admin"', 'Unknown username="admin", realm="Test"', 'Digest foo',
               'Digest username="admin"', 'digest realm="Test", nonce="x"', 'Basic =', 'Basic Og==']


def auth_corpus():
    out = []
    for via in ('direct', 'e2e'):
        # no header, valid logins of every offered form
        out.append(A(None, via=via))
        out.append(A(None, 'basic', via=via))
        out.append(A(D(), via=via))
        out.append(A(D(qop=None), via=via))
        out.append(A(D(algorithm='MD5'), via=via))
        out.append(A(D(opaque='5ccc069c403ebaf9f0171e9517f40e41', extra=[['foo', 'bar']], quote_all=True), via=via))
        out.append(A(D(token='DIGEST', sep=','), via=via))
        out.append(A(D('alice', 'wonder land', method='POST', uri='/area/x?a=1,2&b=%20'), via=via, method='POST', path='/area/x', qs='a=1,2&b=%20'))
        out.append(A(D('None', 'None'), via=via))
        for enc in ('str', 'md5b', 'salted2', 'default'):
            out.append(A(B(), 'basic', via=via, encrypt=enc))
            out.append(A(B('alice', 'wonder land', token='basic'), 'basic', via=via, encrypt=enc, method='PUT', path='/area'))
            out.append(A(B('admin', 'nope'), 'basic', via=via, encrypt=enc))
            out.append(A(B('ghost', 'None'), 'basic', via=via, encrypt=enc))
        for form in ('callable_dict', 'callable_lookup'):
            out.append(A(D(), via=via, users_form=form))
            out.append(A(D('ghost', 'x'), via=via, users_form=form))
            out.append(A(D('ghost', 'None'), via=via, users_form=form))
            out.append(A(B(), 'basic', via=via, users_form=form))
            out.append(A(B('ghost', 'None'), 'basic', via=via, users_form=form))
        # refused: wrong everything
        out.append(A(D('admin', 'wrong'), via=via))
        out.append(A(D('admin', ''), via=via))
        out.append(A(D('admin', 'wonder land'), via=via))
        out.append(A(D('ghost', 'ghost'), via=via))
        out.append(A(D('ghost', 'None'), via=via))
        out.append(A(D('ghost', 'None', qop=None), via=via))
        out.append(A(D('ghost', ''), via=via))
        out.append(A(D(realm='Other'), via=via))
        out.append(A(D(realm='test'), via=via))
        # realms that are parts / extensions of the configured one ('Test'), each digested consistently with the right password
        for near in ('Tes', 'est', 'T', 'e', '', 'Test ', ' Test', 'Test2', 'TestTest', 'TEST'):
            out.append(A(D(realm=near), via=via))
            out.append(A(D(realm=near, qop=None), via=via))
        out.append(A(D(method='POST'), via=via))
        out.append(A(D(), via=via, method='DELETE'))
        for t in ('flip', 'append', 'prepend', 'truncate', 'empty', 'onechar', 'reverse'):
            out.append(A(D(resp_tamper=t), via=via))
            out.append(A(D(resp_tamper=t, qop=None), via=via))
        for k, v in (('nonce', 'other'), ('uri', '/other'), ('nc', '00000002'), ('cnonce', 'ffff'), ('username', 'alice'),
                     ('realm', 'Other'), ('qop', 'auth-int')):
            out.append(A(D(override={k: v}), via=via))
        out.append(A(D(realm='Other', override={'realm': 'Test'}), via=via))
        # malformed: every required field missing, qop inconsistencies, with valid and with wrong credentials
        for pw in ('admin', 'wrong'):
            for k in DIGEST_REQUIRED:
                out.append(A(D(password=pw, drop=[k]), via=via))
                out.append(A(D(password=pw, drop=[k], qop=None), via=via))
            out.append(A(D(password=pw, drop=['nc']), via=via))
            out.append(A(D(password=pw, drop=['cnonce']), via=via))
            out.append(A(D(password=pw, drop=['qop']), via=via))
            out.append(A(D(password=pw, qop=None, stray=['nc']), via=via))
            out.append(A(D(password=pw, qop=None, stray=['cnonce', 'nc']), via=via))
            out.append(A(D(password=pw, drop=list(DIGEST_REQUIRED)), via=via))
        out.append(A(D('ghost', 'x', drop=['response']), via=via))
        out.append(A(D('ghost', 'x', drop=['uri']), 'basic', via=via))
        # variants that were not offered
        for pw in ('admin', 'wrong'):
            for qop in ('auth-int', 'junk', ''):
                out.append(A(D(password=pw, qop=qop), via=via))
            for alg in ('MD5-sess', 'SHA1', 'junk', 'md5', 'MD5-SESS'):
                out.append(A(D(password=pw, algorithm=alg), via=via))
                out.append(A(D(password=pw, algorithm=alg, qop=None), via=via))
            out.append(A(D(password=pw, uri='/elsewhere'), via=via))
        # credentials that verify against another table (another area; the same user before a password change) are offered there FIRST,
        # under a nonce nothing else in this process has seen, then to the configured table
        for k, alg in enumerate((None, 'MD5', 'MD5-sess', 'md5', 'junk')):
            for qop in ('auth', None):
                out.append(A(D(password='wrong', algorithm=alg, qop=qop, nonce='prior-%s-%d-%s' % (via, k, qop)), via=via, prior_first=True))
                out.append(A(D(password='admin', algorithm=alg, qop=qop, nonce='prior-ok-%s-%d-%s' % (via, k, qop)), via=via, prior_first=True))
        out.append(A(B('admin', 'wrong'), 'basic', via=via, prior_first=True))
        # the right credentials with bytes spliced in that are no valid UTF-8 (they are not the credentials any more)
        for where in ('p0', 'p3', 'p5', 'u0', 'u3', 'u5'):
            for hx in ('ff', 'c0', '80', 'e282'):
                out.append(A(B(mangle='stray:%s:%s' % (where, hx)), 'basic', via=via))
                out.append(A(B(mangle='stray:%s:%s' % (where, hx)), 'basic', via=via, encrypt='default'))
        # cross scheme
        out.append(A(D(), 'basic', via=via))
        out.append(A(D('admin', 'wrong'), 'basic', via=via))
        out.append(A(D('ghost', 'None'), 'basic', via=via))
        out.append(A(D('admin', md5hex('admin')), 'basic', via=via, encrypt='md5b'))
        out.append(A(B(), 'digest', via=via))
        out.append(A(B('admin', 'wrong'), 'digest', via=via))
        # basic mangles and passwords that are table hashes
        for m in ('badb64', 'nocolon', 'nospace', 'empty', 'latin1'):
            out.append(A(B(mangle=m), 'basic', via=via))
            out.append(A(B('admin', 'wrong', mangle=m), 'basic', via=via, encrypt='md5b'))
        out.append(A(B('admin', md5hex('admin')), 'basic', via=via, encrypt='md5b'))
        out.append(A(B('admin', md5hex('admin')), 'basic', via=via, encrypt='default'))
        out.append(A(B('admin', ''), 'basic', via=via))
        out.append(A(B('', ''), 'basic', via=via))
        out.append(A(B('alice', 'wonder land', token='BASIC'), 'basic', via=via))
        out.append(A(B('admin', 'admin:x'), 'basic', via=via))
        for raw in RAW_HEADERS:
            out.append(A({'raw': raw}, via=via))
            out.append(A({'raw': raw}, 'basic', via=via))
    # non-ascii credentials (direct only)
    t = {'ülle': 'päss wörd', 'admin': 'admin'}
    out.append(A(B('ülle', 'päss wörd'), 'basic', table=t))
    out.append(A(B('ülle', 'päss wörd', mangle='latin1'), 'basic', table=t))
    out.append(A(B('ülle', 'pass'), 'basic', table=t))
    out.append(A(D('ülle', 'päss wörd', realm='Rëalm'), table=t, realm='Rëalm'))
    out.append(A(D('ülle', 'x', realm='Rëalm'), table=t, realm='Rëalm'))
    out.append(A(D(method='HEAD'), method='HEAD'))
    out.append(A(D('a,b', 'p,w', realm='My, Realm'), table={'a,b': 'p,w'}, realm='My, Realm'))
    return out


def S(clients, steps, **kw):
    c = {'kind': 'session', 'via': 'direct', 'clients': clients, 'steps': steps}
    c.update(kw)
    return c


def step(client, cookie=None, write=None, claims=None, then_fail=False):
    st = {'client': client, 'cookie': cookie, 'write': write}
    if then_fail:
        st['then_fail'] = True
    if claims is not None:
        st['claims'] = claims
    return st


def session_corpus():
    out = []
    cl = [{'ip': '10.0.0.1', 'agent': 'Mozilla/5.0'}, {'ip': '10.0.0.2', 'agent': 'Mozilla/5.0'}, {'ip': '10.0.0.1', 'agent': 'curl/8.0'},
          {'ip': '10.0.0.1', 'agent': None}, {'ip': '10.0.0.1', 'agent': 'Mozilla/5.0'}]
    for via, order in (('direct', None), ('e2e', None), ('wsgi', 'addr-first'), ('wsgi', 'addr-last')):
        # a stolen cookie presented from elsewhere together with headers that claim the owner's address
        out.append(S(cl, [step(0, None, 'tok-a'), step(0, ['own']), step(1, ['of', 0], claims=0), step(2, ['of', 0], claims=0), step(1, ['of', 0]),
                          step(1, None, 'tok-b', claims=0), step(0, ['of', 1]), step(0, ['of', 1], claims=1), step(0, ['own'])],
                     via=via, **({'env_order': order} if order else {})))
    for via in ('direct', 'e2e', 'wsgi'):
        for name in ('circuits', 'sid'):
            out.append(S(cl, [
                step(0, None, 'tok-a'), step(0, ['own']), step(0, ['own'], 'tok-a2'), step(0, ['own']),
                step(1, ['of', 0]), step(2, ['of', 0]), step(3, ['of', 0]), step(4, ['of', 0]),
                step(1, None, 'tok-b'), step(1, ['own']), step(0, ['of', 1]), step(0, ['own']),
                step(1, ['graft', 0]), step(1, ['suffix', 0, 'x']), step(2, ['forged', 'nosuchslash']), step(2, ['forged', 'a/b']),
                step(2, ['forged', 'a/b/c']), step(3, None), step(3, ['own'], 'tok-c'), step(0, ['of', 3]), step(3, ['own']),
                step(0, None), step(0, None), step(0, ['of', 1]), step(0, ['of', 1]),
            ], via=via, cookie_name=name))
        # a forged id adopted by its presenter must not collide with anybody's id afterwards
        out.append(S(cl, [step(0, None, 'tok-a'), step(1, ['graft', 0], 'tok-g'), step(1, ['own']), step(0, ['own']), step(2, ['of', 1]),
                          step(0, ['of', 1])], via=via))
    # a handler that raises must not leave its request's session behind for the next request to the same controller
    for via in ('e2e', 'wsgi'):
        for ctl in ('plain', 'json'):
            out.append(S(cl, [step(0, None, 'tok-a'), step(0, ['own'], then_fail=True), step(1, None), step(1, ['own'], 'tok-b', then_fail=True),
                              step(2, ['of', 1]), step(0, ['own'], then_fail=True), step(0, ['own']), step(3, ['forged', 'a/b'])], via=via, ctl=ctl))
    # observation (not asserted): different (ip, agent) whose concatenation collides
    amb = [{'ip': '10.0.0.1', 'agent': '1 Mozilla'}, {'ip': '10.0.0.11', 'agent': ' Mozilla'}]
    out.append(S(amb, [step(0, None, 'tok-a'), step(0, ['own']), step(1, ['of', 0])], fp_concat=True))
    return out


DOMAINS = {'a.example': 'siteA', 'b.example': 'siteB', 'b.example:8000': 'siteC'}
GATEWAYS = [None, [], ['10.0.0.1'], ['10.0.0.1', '10.0.0.2'], ['10.0.0.11']]
REMOTES = ['10.0.0.1', '10.0.0.2', '10.0.0.11', '6.6.6.6', '10.0.0.']
XFHS = [None, 'b.example', 'B.EXAMPLE', ' b.example , a.example', 'a.example, b.example', 'other.example', '', ',b.example', 'b.example:8000']


def V(gateways, remote, host, xfh, path='/', via='direct', **kw):
    c = {'kind': 'vhost', 'via': via, 'domains': dict(DOMAINS), 'gateways': gateways, 'gw_type': 'list', 'remote': remote, 'host': host,
         'xfh': xfh, 'path': path}
    c.update(kw)
    return c


def vhost_corpus():
    out = []
    for gw in GATEWAYS:
        for remote in ('10.0.0.1', '10.0.0.2', '6.6.6.6'):
            for xfh in (None, 'b.example', ' B.example , a.example', 'other.example'):
                for host in ('a.example', 'other.example'):
                    out.append(V(gw, remote, host, xfh))
    # requests that name no host at all (HTTP/1.0): the forwarded-host header of an untrusted peer must not fill the gap
    for gw in (['10.0.0.1'], [], ['10.0.0.1', '10.0.0.2']):
        for remote in ('10.0.0.1', '6.6.6.6'):
            for via in ('direct', 'e2e', 'wsgi'):
                for xfh in ('b.example', 'a.example, b.example'):
                    out.append(V(gw, remote, 'a.example', xfh, path='/x', via=via, no_host=True))
    for gt in ('tuple', 'set'):
        out.append(V(['10.0.0.1'], '6.6.6.6', 'a.example', 'b.example', gw_type=gt))
        out.append(V(['10.0.0.1'], '10.0.0.1', 'a.example', 'b.example', gw_type=gt))
    out.append(V(None, '6.6.6.6', 'a.example', 'b.example', gw_omitted=True))
    out.append(V(['10.0.0.1'], '6.6.6.6', 'a.example', 'b.example', xff='10.0.0.1'))
    out.append(V(['10.0.0.1'], '6.6.6.6', 'a.example', 'b.example', xff='10.0.0.1', via='e2e'))
    # an untrusted peer that CLAIMS a gateway's address in address-like request headers, every front end, both environ orders
    for via, order in (('direct', None), ('e2e', None), ('wsgi', 'addr-first'), ('wsgi', 'addr-last')):
        for remote in ('6.6.6.6', '10.0.0.1'):
            for path in ('/', '/x'):
                out.append(V(['10.0.0.1'], remote, 'a.example', 'b.example', path=path, via=via, claims='10.0.0.1', **({'env_order': order} if order else {})))
                out.append(V(['10.0.0.1', '10.0.0.2'], remote, 'other.example', 'a.example', path=path, via=via, claims='10.0.0.2', xff='10.0.0.1',
                             **({'env_order': order} if order else {})))
    for gw in (['10.0.0.1'], []):
        for remote in ('10.0.0.1', '6.6.6.6'):
            for path in ('/', '/x'):
                out.append(V(gw, remote, 'a.example', 'b.example', path=path, via='wsgi'))
                out.append(V(gw, remote, 'a.example', 'b.example', path=path, via='e2e'))
                out.append(V(gw, remote, 'other.example', 'a.example, b.example', path=path, via='e2e'))
    return out


def corpus():
    return auth_corpus() + session_corpus() + vhost_corpus() + authcomp_corpus()


# =================================================================================================
# exhaustive digest grammar product and random generators
# =================================================================================================
def grammar_product(max_drop):
    """dropped-field subsets (up to ``max_drop`` fields) x qop x nc/cnonce presence x algorithm x credential kind"""
    import itertools
    out = []
    subsets = [list(s) for n in range(max_drop + 1) for s in itertools.combinations(DIGEST_REQUIRED, n)]
    creds = [('admin', 'admin'), ('admin', 'wrong'), ('ghost', 'ghost'), ('ghost', 'None')]
    for drop in subsets:
        for qop in (None, 'auth', 'auth-int', 'junk'):
            for extra_drop in ([], ['nc'], ['cnonce'], ['nc', 'cnonce']):
                for alg in (None, 'MD5', 'MD5-sess', 'SHA1', 'junk'):
                    for user, pw in creds:
                        h = D(user, pw, qop=qop, algorithm=alg)
                        if qop is None:
                            h['stray'] = extra_drop       # without qop the same slots are used for stray nc/cnonce
                            h['drop'] = list(drop)
                        else:
                            h['drop'] = list(drop) + extra_drop
                        if (user, pw) == ('ghost', 'None') and digest_structure(h) != 'ok':
                            continue                      # see ASSUMPTIONS: never both known triggers at once
                        out.append(A(h))
    return out


USERS = ['admin', 'alice', 'bob', 'al ice', 'a,b', 'None', 'root', 'ülle', 'x']
PASSWORDS = ['admin', 'secret', 'p:w', 'pa ss', 'None', '', 'päss', 'a,b"c', 'hunter2', '0', 'none', 'null']
REALMS = ['Test', 'My Realm', 'a,b', 'realm@host.com', 'Rëalm', 'test']
METHODS = ['GET', 'POST', 'PUT', 'DELETE', 'HEAD', 'OPTIONS']
PATHS = [('/', ''), ('/area', ''), ('/area/x', 'a=1'), ('/', 'a=1,2&b=%20'), ('/area/x/y', '')]
GHOSTS = ['ghost', 'root', 'None', 'nobody', 'Admin', 'admin ']


def gen_auth(rng):
    users = rng.sample(USERS, rng.randint(1, 4))
    table = {u: rng.choice(PASSWORDS) for u in users}
    realm = rng.choice(REALMS)
    method = rng.choice(METHODS)
    path, qs = rng.choice(PATHS)
    idiom = rng.choice(['digest', 'digest', 'basic'])
    case = {'kind': 'auth', 'via': 'e2e' if rng.random() < 0.15 else 'direct', 'idiom': idiom, 'table': table, 'realm': realm,
            'method': method, 'path': path, 'qs': qs, 'users_form': rng.choice(['dict', 'dict', 'callable_dict', 'callable_lookup'])}
    if idiom == 'basic':
        case['encrypt'] = rng.choice(['str', 'str', 'md5b', 'salted2', 'default'])
    r = rng.random()
    if r < 0.03:
        case['hdr'] = None
        return case
    if r < 0.10:
        case['hdr'] = {'raw': rng.choice(RAW_HEADERS)}
        return case
    # credentials
    ck = rng.random()
    u0 = rng.choice(users)
    if ck < 0.35:
        user, pw = u0, table[u0]
    elif ck < 0.50:
        user, pw = u0, rng.choice([p for p in PASSWORDS if p != table[u0]])
    elif ck < 0.65:
        user, pw = rng.choice([g for g in GHOSTS if g not in table]), 'None'
    elif ck < 0.80:
        user, pw = rng.choice([g for g in GHOSTS if g not in table]), rng.choice(PASSWORDS)
    elif ck < 0.90 and len(users) > 1:
        other = rng.choice([u for u in users if u != u0])
        user, pw = u0, table[other]
    else:
        user, pw = u0, table_entry(case, u0)      # the stored form itself offered as password
    scheme = rng.choice(['digest', 'digest', 'digest', 'basic']) if idiom == 'digest' else rng.choice(['basic', 'basic', 'basic', 'digest'])
    if scheme == 'basic':
        h = B(user, pw, token=rng.choice(['Basic', 'Basic', 'basic', 'BASIC']))
        if rng.random() < 0.2:
            h['mangle'] = rng.choice(['badb64', 'nocolon', 'nospace', 'empty', 'latin1'] +
                                     ['stray:%s%d:%s' % (rng.choice('up'), rng.randint(0, 6), rng.choice(['ff', 'fe', 'c0', '80', 'e282', 'f09f98', 'c3']))] * 3)
        case['hdr'] = h
        return case
    uri = request_uri(case)
    case['prior_first'] = rng.random() < 0.4
    h = D(user, pw, realm=realm, method=method, uri=uri, nonce=rng.choice(['dcd98b7102dd2f0e8b11d0f600bfb0c093', 'n', '', 'a:b', 'n%08x' % rng.getrandbits(32)]),
          qop=rng.choice(['auth', 'auth', 'auth', None, None, 'auth-int', 'junk']),
          token=rng.choice(['Digest', 'Digest', 'digest', 'DIGEST']))
    if rng.random() < 0.3:
        h['qop'] = rng.choice(['auth', None])
        for k, v in (('algorithm', 'MD5'), ('opaque', 'op'), ('quote_all', True), ('sep', ',')):
            if rng.random() < 0.2:
                h[k] = v
        case['hdr'] = h
        return case                     # conforming header: only the credentials decide
    if rng.random() < 0.3:
        h['algorithm'] = rng.choice(['MD5', 'MD5', 'MD5-sess', 'SHA1', 'junk', 'md5'])
    if rng.random() < 0.2:
        # another realm altogether, or one that only differs a little: a part of the configured one, an extension of it, another case, empty
        near = [realm[:-1], realm[1:], realm[:1], realm[len(realm) // 2:], '', realm + ' ', ' ' + realm, realm + '2', realm.upper(), realm.swapcase(), realm * 2]
        h['realm'] = rng.choice([x for x in REALMS if x != realm] + [x for x in near if x != realm])
    if rng.random() < 0.12:
        h['method'] = rng.choice([x for x in METHODS if x != method])
    if rng.random() < 0.08:
        h['uri'] = rng.choice(['/elsewhere', '/', uri + '/'])
    if rng.random() < 0.2:
        h['resp_tamper'] = rng.choice(['flip', 'append', 'prepend', 'truncate', 'empty', 'onechar', 'reverse'])
    if rng.random() < 0.15:
        k = rng.choice(['nonce', 'uri', 'nc', 'cnonce', 'username', 'realm', 'qop'])
        h['override'] = {k: {'nonce': 'zzz', 'uri': '/zzz', 'nc': '00000009', 'cnonce': 'zz', 'username': rng.choice(users),
                             'realm': rng.choice(REALMS), 'qop': rng.choice(['auth', 'auth-int'])}[k]}
    if rng.random() < 0.25:
        pool = list(DIGEST_REQUIRED) + ['nc', 'cnonce', 'qop']
        h['drop'] = rng.sample(pool, rng.choice([1, 1, 1, 2, 3]))
    if h['qop'] is None and rng.random() < 0.1:
        h['stray'] = rng.choice([['nc'], ['cnonce'], ['nc', 'cnonce']])
    if rng.random() < 0.2:
        h['opaque'] = 'op'
    if rng.random() < 0.2:
        h['extra'] = [[rng.choice(['foo', 'domain', 'x-ext']), rng.choice(['bar', 'a,b', ''])]]
    if rng.random() < 0.2:
        h['quote_all'] = True
    if rng.random() < 0.2:
        h['sep'] = ','
    if h['user'] not in table and h['password'] == 'None' and digest_structure(h) != 'ok':
        h['drop'], h['stray'] = [], []
    case['hdr'] = h
    return case


IPS = ['10.0.0.1', '10.0.0.2', '10.0.0.11', '192.168.1.5', '::1', '10.0.0.1']
AGENTS = [None, '', 'Mozilla/5.0', 'curl/8.0', 'Mozilla/5.0 (X11)', 'Mozilla/5.0']


def gen_session(rng):
    while True:
        clients = [{'ip': rng.choice(IPS), 'agent': rng.choice(AGENTS)} for _ in range(rng.randint(2, 4))]
        concat = {}
        ok = True
        for c in clients:
            key = c['ip'] + (c['agent'] or '')
            if concat.setdefault(key, (c['ip'], c['agent'] or '')) != (c['ip'], c['agent'] or ''):
                ok = False
        if ok:
            break
    steps = []
    n = len(clients)
    for k in range(rng.randint(4, 14)):
        i = rng.randrange(n)
        r = rng.random()
        if r < 0.2 or k == 0:
            ck = None
        elif r < 0.45:
            ck = ['own']
        elif r < 0.8:
            ck = ['of', rng.randrange(n)]
        elif r < 0.88:
            ck = ['graft', rng.randrange(n)]
        elif r < 0.93:
            ck = ['suffix', rng.randrange(n), rng.choice(['x', '/x', '0'])]
        else:
            ck = ['forged', rng.choice(['nosuchslash', 'a/b', '/', 'a/', '/b', '0' * 32 + '/' + '0' * 40])]
        steps.append(step(i, ck, 'tok-%d' % k if rng.random() < 0.5 or k == 0 else None, claims=rng.randrange(n) if rng.random() < 0.25 else None))
    r = rng.random()
    case = S(clients, steps, via='e2e' if r < 0.2 else 'wsgi' if r < 0.45 else 'direct', cookie_name=rng.choice(['circuits', 'circuits', 'sid']))
    if case['via'] == 'wsgi':
        case['env_order'] = rng.choice(['addr-first', 'addr-last'])
    if case['via'] != 'direct':
        r2 = random.Random(repr(steps))       # (a stream of its own: the cases generated before this option keep their shape)
        if r2.random() < 0.5:
            case['ctl'] = 'json'
        for st in steps:
            if r2.random() < 0.3:
                st['then_fail'] = True
    return case


def gen_vhost(rng):
    gw = rng.choice(GATEWAYS[1:] + GATEWAYS[2:] + [None])
    return V(gw, rng.choice(REMOTES), rng.choice(['a.example', 'b.example', 'other.example', 'b.example:8000']), rng.choice(XFHS),
             path=rng.choice(['/', '/x', '/x/y']), via=rng.choice(['e2e', 'wsgi', 'wsgi', 'direct', 'direct', 'direct', 'direct']),
             gw_type=rng.choice(['list', 'tuple', 'set']), xff=rng.choice([None, None, '10.0.0.1', '10.0.0.1, 6.6.6.6']),
             claims=rng.choice([None, None, '10.0.0.1', '10.0.0.2', '10.0.0.11']), env_order=rng.choice(['addr-first', 'addr-last']),
             no_host=rng.random() < 0.15)


def gen_case(rng):
    r = rng.random()
    if r < 0.7:
        return gen_auth(rng)
    if r < 0.82:
        return gen_session(rng)
    if r < 0.86:
        return gen_authcomp(rng)
    return gen_vhost(rng)


def vhost_product():
    out = []
    for gw in GATEWAYS:
        for remote in REMOTES:
            for host in ('a.example', 'b.example', 'other.example'):
                for xfh in XFHS:
                    out.append(V(gw, remote, host, xfh))
    return out


# =================================================================================================
def plan(tier, seed):
    if tier == 'quick':
        return ([{'kind': 'corpus'}, {'kind': 'grammar', 'max_drop': 1, 'part': 0, 'parts': 2}, {'kind': 'grammar', 'max_drop': 1, 'part': 1, 'parts': 2}]
                + [{'kind': 'random', 'seed': seed * 1000 + i, 'n': 500} for i in range(13)])
    return ([{'kind': 'corpus'}, {'kind': 'vhost_product'}]
            + [{'kind': 'grammar', 'max_drop': 5, 'part': i, 'parts': 8} for i in range(8)]
            + [{'kind': 'random', 'seed': seed * 100000 + i, 'n': 6500} for i in range(60)])


EXHAUSTIVE = {}


def run_batch(spec):
    import circuits  # noqa: F401  (the real package under test)
    from vlib import ref_auth
    b = Batch(PROPERTY)
    bad = ref_auth.selfcheck()
    if bad:
        b.inconclusive_because('reference builder disagrees with RFC vectors / urllib: %s' % bad)
        return b.result()
    b.reached('ref_selfcheck_ok')
    if spec['kind'] == 'corpus':
        for case in corpus():
            evaluate(b, case)
    elif spec['kind'] == 'grammar':
        cases = grammar_product(spec['max_drop'])
        for case in cases[spec['part']::spec['parts']]:
            evaluate(b, case)
        b.reached('grammar_product_cases', len(cases[spec['part']::spec['parts']]))
    elif spec['kind'] == 'vhost_product':
        for case in vhost_product():
            evaluate(b, case)
    else:
        rng = random.Random(spec['seed'])
        for _ in range(spec['n']):
            evaluate(b, gen_case(rng))
    return b.result()


def run_replay(case):
    import circuits  # noqa: F401
    b = Batch(PROPERTY)
    evaluate(b, unjson(case))
    return b.result()


ENGINE = 'event-injection'
TECHNIQUE = ('runtime monitoring: the real check_auth/basic_auth/digest_auth, Sessions and VirtualHosts are called with hand-built '
             'Request/Response objects and through HTTP+Dispatcher+Controller; Authorization headers come from an independent RFC 2617 '
             'builder whose recipe tells the oracle whether they verify')
LEVEL_TEXT = ('Each case fixes a user table, realm, request and a header recipe; the independent builder (hashlib/base64 only, checked against '
              'the RFC examples and urllib) renders the header, the real functions and the documented idiom are executed, and the oracle demands '
              '"authenticated iff the recipe is a table entry for the configured realm and request method". Sessions are driven with histories '
              'of requests differing in cookie, address and user agent against a model of which id was issued to whom; VirtualHosts with a '
              'differential (same request with and without X-Forwarded-Host). Held means no mismatch on the cases run (corpus + exhaustive '
              'digest-grammar product + random); it is sampling, not a proof over all headers.')
LEVEL_NOTE = ('Trusted: vlib/ref_auth.py (verified against RFC 2617/2069/7617 vectors and urllib at the start of every batch) and the session '
              'model. Not asserted: nonce freshness/replay, uri directive vs request line, variants the challenge does not offer, the '
              'trusted_gateways=None default, ip+agent concatenation collisions of the session fingerprint.')

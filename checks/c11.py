"""C11 - stream writes arrive in order, each byte once, and close waits for the buffer.

Fault enumeration: the real Server / TCPClient / File components write through a *scripted* socket
(or a scripted os.write for File) whose send() outcomes - accept all, accept k < n, accept 0,
EAGAIN, EINTR, ENOBUFS, EPIPE, ECONNRESET - are enumerated exhaustively up to a script length, for
every position of a close request; writability is driven by a scripted poller, one round at a time
(DESIGN.md 2.4 and section 4, C11).
"""
import errno
import itertools
import os
import random
import socket
import tempfile

from vlib.batch import Batch, BudgetExceeded, cpu_budget, unjson

PROPERTY = 'C11'
LEVEL = 'fault_enumeration'
RULE = ('every send-outcome script up to length L over {accept all, accept part, accept 0, EAGAIN, EINTR, ENOBUFS, EPIPE, ECONNRESET} x payload '
        'sequences (3 sets incl. empty payloads; 1 MiB payload in the corpus) x every position of a close request x endpoints {Server (two '
        'connections interleaved), TCPClient, File}; L = 3 (quick) / 5 (thorough) exhaustively, longer scripts randomly; non-trivial = the '
        'script contains a partial accept or a transient refusal; distinct = (endpoint, payload set, script, close position)')
ASSUMPTIONS = [
    'the scripted socket is a socket.socket subclass whose send/recv/shutdown/close are overridden; after a fatal outcome every later send raises EPIPE',
    'File is driven through a by-name wrapper of circuits.io.file.fd_write (inconclusive if that name disappears)',
    'writability is delivered by a scripted poller (BasePoller subclass) as one _write event per registered writer per round',
    'EAGAIN == EWOULDBLOCK on this platform',
]
REQUIRED = ['file_component_opened_again_after_its_close', 'unrelated_component_left_the_tree_while_data_was_buffered', 'payload_written_after_the_buffer_had_drained_completely', 'endpoint_server', 'endpoint_client', 'endpoint_file', 'partial_send_requeued', 'accept_zero', 'eagain_injected', 'eintr_injected',
            'enobufs_injected', 'fatal_injected', 'close_while_buffered', 'close_after_drain', 'two_connections_interleaved', 'two_clients_on_one_channel', 'connection_on_descriptor_number_zero', 'file_open_for_reading_and_writing', 'thousands_of_payloads_queued_at_once', 'more_payloads_queued_than_the_configured_backlog', 'empty_payload',
            'write_after_close_request', 'server_wide_close', 'text_payload_multibyte', 'close_requested_by_peer_eof', 'client_reconnected_after_end', 'client_reconnected_after_unsent_backlog']
REQUIRED_OBLIGATIONS = ['PREFIX', 'ALL_DELIVERED', 'CLOSE_WAITS_FOR_BUFFER', 'NO_SEND_AFTER_CLOSE', 'FATAL_SIGNALLED', 'CLOSE_HAPPENS']
WORKER_TIMEOUT = {'quick': 300, 'thorough': 1800}
EXHAUSTIVE = {'quick': 'all send scripts of length <= 3 over 8 outcomes x 3 payload sets (+ a multi-byte text set for File) x 4 close positions (asked for by a close event or, for sockets, by the peer shutting down its sending side) x 3 endpoints',
              'thorough': 'all send scripts of length <= 5 over 8 outcomes x 3 payload sets (+ a multi-byte text set for File) x 4 close positions (asked for by a close event or, for sockets, by the peer shutting down its sending side) x 3 endpoints'}
ENGINE = 'scripted-io'
TECHNIQUE = 'fault injection: enumerated scripts of send() outcomes on a scripted socket / os.write double under the real endpoint components, byte-exact conservation oracle'
LEVEL_TEXT = ('The real Server, TCPClient and File components run against a scripted socket (os.write for File) and a scripted poller; every '
              'script of send() outcomes up to the stated length is enumerated for every close position. After every step the bytes the OS accepted '
              'must be a prefix of the concatenated payloads; without a fatal outcome everything must be delivered and the close must follow the '
              'last byte; nothing may be sent after close; a fatal outcome must be signalled. Exhaustive up to the bound, random beyond it.')
LEVEL_NOTE = 'Trusted: the socket / poller doubles. TLS paths and UDP are not exercised.'

OUTCOMES = ['A', 'P', 'Z', 'EAGAIN', 'EINTR', 'ENOBUFS', 'EPIPE', 'ECONNRESET']
ERRNO = {'EAGAIN': errno.EAGAIN, 'EINTR': errno.EINTR, 'ENOBUFS': errno.ENOBUFS, 'EPIPE': errno.EPIPE, 'ECONNRESET': errno.ECONNRESET}
FATAL = ('EPIPE', 'ECONNRESET')
PAYLOAD_SETS = {
    's': [b'a', b'BC', b'defgh'],
    'e': [b'', b'xy', b'', b'Z'],
    'm': [b'0123456789' * 30, b'q', b'ABCDEFGHIJ' * 7],
    # text payloads (File only: a text-mode File is normally written with str); multi-byte characters so that byte and character counts differ
    'u': ['\xe9\u20aca', 'ab', '\u20ac\u20ac\u20ac\u20ac\u20acx\xe9', 'na\xefve \u2014 text \U0001f600!'],
}
FILE_ENCODING = 'utf-8'


class Script:
    """Interpreter of send outcomes shared by the socket and the fd_write doubles."""

    def __init__(self, outcomes):
        self.outcomes = list(outcomes)
        self.i = 0
        self.accepted = bytearray()
        self.log = []          # ('send', offered, outcome) | ('shutdown',) | ('close',)
        self.dead = False
        self.closed = False
        self.used = set()
        self.signals = None      # the observer's signal list (set by the harness)
        self.fatal_mark = None
        self.fatal_signalled = None

    def send(self, data):
        data = bytes(data)
        if self.closed:
            self.log.append(('send-after-close', len(data)))
            raise OSError(errno.EBADF, 'closed')
        if self.dead:
            self.log.append(('send', len(data), 'EPIPE*'))
            raise OSError(errno.EPIPE, 'broken')
        o = self.outcomes[self.i] if self.i < len(self.outcomes) else 'A'
        self.i += 1
        self.used.add(o)
        self.log.append(('send', len(data), o))
        if o == 'A':
            self.accepted += data
            return len(data)
        if o == 'P':
            k = len(data) // 2
            self.accepted += data[:k]
            return k
        if o == 'Z':
            return 0
        if o in FATAL:
            self.dead = True
            self.fatal_mark = len(self.signals) if self.signals is not None else 0
        raise OSError(ERRNO[o], o)


class ScriptedSocket(socket.socket):
    def __init__(self, script, peer=('10.0.0.9', 5555), number=None):
        super().__init__(socket.AF_INET, socket.SOCK_STREAM)
        self._vs = script
        self._vpeer = peer
        self._vnumber = number      # the descriptor number the endpoint is shown (0: what a daemon with stdin closed, or inetd, hands out)

    def fileno(self):
        if self._vnumber is None:
            return super().fileno()
        return -1 if self._vs.closed else self._vnumber

    def send(self, data, *a):
        return self._vs.send(data)

    def recv(self, n, *a):
        if getattr(self._vs, 'eof', False):
            return b''          # the peer has shut down its sending side
        raise BlockingIOError(errno.EWOULDBLOCK, 'nothing')

    def shutdown(self, how):
        self._vs.log.append(('shutdown',))

    def close(self):
        if not self._vs.closed:
            self._vs.closed = True
            self._vs.log.append(('close',))
        super().close()

    def getpeername(self):
        return self._vpeer

    def getsockname(self):
        return ('127.0.0.1', 9999)

    def connect(self, addr):
        if self._vs.closed:
            raise OSError(errno.EBADF, 'closed socket')      # what connect() on a closed socket does: the client makes a new one
        return None

    def connect_ex(self, addr):
        return errno.EINPROGRESS     # a non-blocking connect in progress; getpeername() then shows it established

    def setblocking(self, flag):
        pass


class Listen(socket.socket):
    def __init__(self):
        super().__init__(socket.AF_INET, socket.SOCK_STREAM)
        self.pending = []

    def accept(self):
        if not self.pending:
            raise BlockingIOError(errno.EWOULDBLOCK, 'none')
        s = self.pending.pop(0)
        return s, s.getpeername()

    def getsockname(self):
        return ('127.0.0.1', 9999)


def make_world(endpoint, scripts, backlog=None, fmode='w', fdnum=None):
    """Returns dict(root, drive functions...)."""
    from circuits import BaseComponent, handler
    from circuits.core.pollers import BasePoller, _read as poll_read, _write as poll_write
    from circuits.net import events as nev
    signals = []

    class ScriptedPoller(BasePoller):
        channel = 'spoll'

        def _generate_events(self, event):
            return None

    class Obs(BaseComponent):
        @handler('error', 'disconnect', 'disconnected', 'closed', channel='*', priority=10)
        def _on_sig(self, event, *args):
            signals.append(event.name)

        @handler('exception', channel='*')
        def _on_exc(self, etype, evalue, tb, handler=None, fevent=None):
            signals.append('exception:' + repr(evalue))

    root = Obs()
    poller = ScriptedPoller().register(root)

    def settle():
        for _ in range(200):
            if not len(root) and not root._tasks:
                return
            root.tick()
        raise RuntimeError('does not settle')

    # components that have nothing to do with the endpoint (one beside it, one below the other): their leaving the tree is no business of the
    # endpoint's (case option 'bystander_leaves')
    class Bystander(BaseComponent):
        channel = 'elsewhere'
    by1 = Bystander().register(root)
    by2 = Bystander().register(by1)

    def bystander_leaves(which):
        (by2 if which == 'leaf' else by1).unregister()
        settle()

    W = {'root': root, 'poller': poller, 'signals': signals, 'settle': settle, 'bystander_leaves': bystander_leaves}
    if endpoint == 'server':
        from circuits.net.sockets import TCPServer
        listen = Listen()
        srv = (TCPServer(listen, channel='srv') if backlog is None else TCPServer(listen, backlog=backlog, channel='srv')).register(root)
        settle()
        socks = []
        for sc in scripts:
            s = ScriptedSocket(sc, peer=('10.0.0.%d' % (len(socks) + 1), 5000), number=fdnum if not socks else None)
            listen.pending.append(s)
            root.fire(poll_read(listen), 'srv')
            settle()
            socks.append(s)
        W.update(write=lambda i, d: (root.fire(nev.write(socks[i], d), 'srv'), settle()),
                 close=lambda i: (root.fire(nev.close(socks[i]), 'srv'), settle()),
                 close_all=lambda: (root.fire(nev.close(), 'srv'), settle()),
                 read=lambda i: (root.fire(poll_read(socks[i]), poller.getTarget(socks[i])), settle()),
                 socks=socks, comp=srv, chan='srv', listen=listen)
    elif endpoint == 'client':
        from circuits.net.sockets import TCPClient
        s = ScriptedSocket(scripts[0], number=fdnum)
        later = []       # scripts for the sockets of later connections of the same component

        class ScriptedTCPClient(TCPClient):
            def _create_socket(self):
                ns = ScriptedSocket(later.pop(0))
                W['socks'].append(ns)
                return ns
        W['later_scripts'] = later
        cli = ScriptedTCPClient(s, channel='cli').register(root)
        settle()
        csocks = [s]
        if len(scripts) > 1:
            # a second client on the same channel (a "tee": every write event goes to both connections, and each of them sees the
            # other's readiness events)
            s2 = ScriptedSocket(scripts[1], peer=('10.0.0.10', 5556))
            ScriptedTCPClient(s2, channel='cli').register(root)
            csocks.append(s2)
            settle()
        root.fire(nev.connect('10.0.0.1', 80), 'cli')
        settle()
        W.update(write=lambda i, d: (root.fire(nev.write(d), 'cli'), settle()),
                 close=lambda i: (root.fire(nev.close(), 'cli'), settle()),
                 read=lambda i: (root.fire(poll_read(csocks[i]), poller.getTarget(csocks[i])), settle()), socks=csocks, comp=cli, chan='cli')
    else:
        import circuits.io.file as fmod
        from circuits.io import File
        from circuits.io import events as iev
        sc = scripts[0]
        tmp = tempfile.NamedTemporaryFile(prefix='vc11-', delete=False)
        tmp.close()
        real_write = os.write

        holder = [sc]       # (the script the OS double follows; a second session of the same File - case option 'reopen' - brings its own)
        W['file_script'] = holder

        def fd_write(fd, data):
            n = holder[0].send(data)
            if n:
                real_write(fd, bytes(data)[:n])
            return n
        if not hasattr(fmod, 'fd_write'):
            raise LookupError('circuits.io.file.fd_write is gone')
        fmod.fd_write = fd_write
        f = File(tmp.name, fmode, encoding=FILE_ENCODING, channel='fil').register(root)
        settle()
        W.update(write=lambda i, d: (root.fire(iev.write(d), 'fil'), settle()),
                 close=lambda i: (root.fire(iev.close(), 'fil'), settle()), socks=[None], comp=f, chan='fil', tmp=tmp.name)

    for sc in scripts:
        sc.signals = signals

    def pump():
        """One writability round: a _write event for every registered writer, addressed like the real pollers do."""
        fds = list(poller._write)
        for fd in fds:
            root.fire(poll_write(fd), poller.getTarget(fd))
        if endpoint == 'file':
            # a regular file is always readable as well: a file opened for reading AND writing also gets a _read whenever the poller looks
            # (there is nothing to read: it is at its end).  It is delivered after the writes have been handled, to descriptors that are
            # still registered then (what a File does with a _read for a descriptor it has closed meanwhile is not this property's subject)
            settle()
            for fd in list(poller._read):
                if fd is not poller._ctrl_recv and not isinstance(fd, int):
                    root.fire(poll_read(fd), poller.getTarget(fd))
        settle()
        for sc in scripts:
            # a fatal outcome must be signalled by the endpoint itself, before the harness does anything else
            if sc.dead and sc.fatal_signalled is None:
                sc.fatal_signalled = any(x in ('error', 'disconnect', 'disconnected', 'closed') for x in signals[sc.fatal_mark:])
        return len(fds)
    W['pump'] = pump
    return W


def run_case(case):
    endpoint = case['endpoint']
    tee = endpoint == 'client' and bool(case.get('tee'))
    nconn = 2 if (endpoint == 'server' and case.get('two')) or tee else 1
    scripts = [Script(case['script'])] + [Script(case.get('script2', [])) for _ in range(nconn - 1)]
    payloads = [list(PAYLOAD_SETS[case['payloads']]) for _ in range(nconn)]
    if case.get('big'):
        payloads[0] = [b'B' * (1 << 20), b'tail']
    if case.get('flood'):
        # very many small payloads queued for one connection before anything drains (more than any listen backlog, bufsize or other
        # number the endpoint was configured with)
        payloads[0] = [b'%05d;' % i for i in range(case['flood'])]
    if nconn == 2 and not tee:
        payloads[1] = [bytes(reversed(p)) + b'#' for p in payloads[1]]
    W = make_world(endpoint, scripts, backlog=case.get('backlog'), fmode=case.get('fmode', 'w'), fdnum=case.get('fdnum'))
    if endpoint == 'file' and '+' in case.get('fmode', 'w'):
        marks_fmode = 'file_open_for_reading_and_writing'
    else:
        marks_fmode = None
    problems = []
    counts = dict.fromkeys(REQUIRED_OBLIGATIONS, 0)
    marks = {'endpoint_' + endpoint}
    if marks_fmode:
        marks.add(marks_fmode)
    written = [bytearray() for _ in range(nconn)]
    close_req = [False] * nconn
    close_pos = case['close_at']      # index into the step list: close requested before that write (None = at the end)

    def request_close(j):
        """The close of connection j is asked for: by a close event, or (close_by == 'eof') by the peer shutting down its sending side -
        the endpoint then asks for the close itself, and that close has to wait for the buffer just the same."""
        if case.get('close_by') == 'eof' and endpoint != 'file':
            if scripts[j].closed or not W['poller'].isReading(W['socks'][j]):
                return
            marks.add('close_requested_by_peer_eof')
            scripts[j].eof = True
            W['read'](j)
        else:
            W['close'](j)

    def accepted(i):
        if endpoint == 'file':
            with open(W['tmp'], 'rb') as fh:
                return fh.read()
        return bytes(scripts[i].accepted)

    def check_prefix(where):
        for i in range(nconn):
            counts['PREFIX'] += 1
            acc = accepted(i)
            if bytes(written[i][:len(acc)]) != acc:
                problems.append(('PREFIX', {'connection': i, 'after': where, 'accepted': _short(acc), 'written_so_far': _short(bytes(written[i])),
                                            'send_log': scripts[i].log[-12:]}))
                return False
        return True

    try:
        steps = []
        for k in range(max(len(p) for p in payloads)):
            for i in range(1 if tee else nconn):
                if k < len(payloads[i]):
                    steps.append((i, payloads[i][k]))
        ok = True
        for n, (i, data) in enumerate(steps):
            if close_pos is not None and n == close_pos:
                for j in range(nconn):
                    if scripts[j].accepted != written[j] and not scripts[j].dead:
                        marks.add('close_while_buffered')
                    if not case.get('close_all'):
                        request_close(j)
                    close_req[j] = True
                if case.get('close_all'):
                    marks.add('server_wide_close')
                    W['close_all']()   # close() without a socket: the whole server, every connection after its buffer drained
            bl = case.get('bystander_leaves')
            if bl and bl[0] == n:
                # an unrelated component leaves the tree while (possibly) data is buffered: nothing changes for the endpoint
                if any(scripts[j].accepted != written[j] for j in range(nconn)) or (endpoint == 'file' and accepted(0) != bytes(written[0])):
                    marks.add('unrelated_component_left_the_tree_while_data_was_buffered')
                W['bystander_leaves'](bl[1])
            if close_req[i]:
                marks.add('write_after_close_request')
            if not data:
                marks.add('empty_payload')
            if endpoint == 'file' and W['comp'].closed and not close_req[i] and not scripts[i].dead:
                # nobody asked for a close and no write failed, yet the endpoint closed itself (e.g. on reaching the end of what there is
                # to read): whatever is written from now on is lost without any error
                counts['ALL_DELIVERED'] += 1
                problems.append(('ALL_DELIVERED', {'connection': i, 'note': 'the endpoint closed itself although no close was requested and no write failed; '
                                                   'the next payload can not reach the OS', 'before_write': n, 'mode': case.get('fmode', 'w'),
                                                   'signals': W['signals'][-8:]}))
                ok = False
                break
            if scripts[i].closed or (endpoint == 'file' and W['comp'].closed):
                continue  # writing to an endpoint that already closed is C12's subject
            W['write'](i, data)
            if isinstance(data, str):
                marks.add('text_payload_multibyte')
                written[i] += data.encode(FILE_ENCODING)
            else:
                written[i] += data
            if tee and not scripts[1].closed:
                written[1] += data          # the write event reaches both clients of the channel
            if case.get('pump_between', True) == 'drain':
                # the loop gets round to this endpoint again and again before the application writes the next payload: every payload is
                # written to an endpoint whose buffer has drained completely (and which has been told about its read side, too)
                for _ in range(6 + 2 * len(scripts[i].outcomes)):
                    if not W['pump']():
                        break
                marks.add('payload_written_after_the_buffer_had_drained_completely')
            elif case.get('pump_between', True) and n % 2 == 1:
                W['pump']()
            ok = check_prefix('write %d' % n)
            if not ok:
                break
        if ok:
            if close_pos is None or close_pos >= len(steps):
                for j in range(nconn):
                    if scripts[j].accepted != written[j] and not scripts[j].dead:
                        marks.add('close_while_buffered')
                    else:
                        marks.add('close_after_drain')
                    if not case.get('close_all'):
                        request_close(j)
                    close_req[j] = True
                if case.get('close_all'):
                    marks.add('server_wide_close')
                    W['close_all']()
            budget = 6 + 2 * sum(len(s.outcomes) for s in scripts) + 2 * len(steps) + (40 if case.get('big') else 0)
            for r in range(budget):
                n = W['pump']()
                if not check_prefix('pump %d' % r):
                    ok = False
                    break
                if n == 0:
                    break
        if case.get('flood'):
            marks.add('thousands_of_payloads_queued_at_once' if case['flood'] > 5000 else 'more_payloads_queued_than_the_configured_backlog')
        if case.get('fdnum') == 0 and endpoint != 'file':
            marks.add('connection_on_descriptor_number_zero')
        if tee:
            marks.add('two_clients_on_one_channel')
        elif nconn == 2:
            marks.add('two_connections_interleaved')
        for i in range(nconn):
            sc = scripts[i]
            for o, m in (('P', 'partial_send_requeued'), ('Z', 'accept_zero'), ('EAGAIN', 'eagain_injected'), ('EINTR', 'eintr_injected'),
                         ('ENOBUFS', 'enobufs_injected')):
                if o in sc.used:
                    marks.add(m)
            fatal = sc.dead
            if fatal:
                marks.add('fatal_injected')
            acc = accepted(i)
            if not ok:
                break
            if not fatal:
                counts['ALL_DELIVERED'] += 1
                if acc != bytes(written[i]):
                    problems.append(('ALL_DELIVERED', {'connection': i, 'accepted': _short(acc), 'written': _short(bytes(written[i])),
                                                       'writers_left': len(W['poller']._write), 'send_log': sc.log[-12:], 'signals': W['signals'][-6:]}))
                    continue
                # close waits for the buffer: the close of the descriptor comes after the last accepted byte
                counts['CLOSE_WAITS_FOR_BUFFER'] += 1
                counts['CLOSE_HAPPENS'] += 1
                if endpoint == 'file':
                    closed_now = W['comp'].closed
                else:
                    closed_now = sc.closed
                if not closed_now:
                    problems.append(('CLOSE_HAPPENS', {'connection': i, 'note': 'close was requested, everything is written, but the descriptor was never closed',
                                                       'send_log': sc.log[-8:]}))
                else:
                    idx_close = next((k for k, e in enumerate(sc.log) if e[0] in ('close', 'shutdown')), None)
                    sends_after = [e for e in sc.log[idx_close:] if e[0].startswith('send')] if idx_close is not None else []
                    if sends_after:
                        problems.append(('CLOSE_WAITS_FOR_BUFFER', {'connection': i, 'send_log': sc.log[-12:]}))
            else:
                counts['FATAL_SIGNALLED'] += 1
                if not sc.fatal_signalled:
                    problems.append(('FATAL_SIGNALLED', {'connection': i, 'signals': W['signals'], 'send_log': sc.log[-8:]}))
            counts['NO_SEND_AFTER_CLOSE'] += 1
            if any(e[0] == 'send-after-close' for e in sc.log):
                problems.append(('NO_SEND_AFTER_CLOSE', {'connection': i, 'send_log': sc.log[-12:]}))
        if endpoint == 'client' and case.get('reconnect') and scripts[0].closed and ok:
            # the same component connects again: the new connection carries exactly what is written to it - nothing of the old one
            from circuits.net import events as _nev
            backlog = bytes(scripts[0].accepted) != bytes(written[0])
            sc2 = Script(case.get('script2', []))
            sc2.signals = W['signals']
            W['later_scripts'].append(sc2)
            W['root'].fire(_nev.connect('10.0.0.1', 80), 'cli')
            W['settle']()
            if W['comp'].connected and W['socks'][-1]._vs is sc2:
                marks.add('client_reconnected_after_end')
                if backlog:
                    marks.add('client_reconnected_after_unsent_backlog')
                second = [b'second-1;', b'second-22;', b'second-333.']
                for d in second:
                    W['write'](0, d)
                W['close'](0)
                for _r in range(12 + 2 * len(sc2.outcomes)):
                    if not W['pump']():
                        break
                counts['PREFIX'] += 1
                acc2, want2 = bytes(sc2.accepted), b''.join(second)
                if want2[:len(acc2)] != acc2 or (not sc2.dead and acc2 != want2):
                    problems.append(('PREFIX', {'connection': 'second connection of the same client', 'accepted': _short(acc2), 'written_to_it': _short(want2),
                                                'written_to_the_first_connection': _short(bytes(written[0])), 'first_connection_accepted': _short(bytes(scripts[0].accepted)),
                                                'send_log': sc2.log[-8:]}))
                if not sc2.dead:
                    counts['CLOSE_HAPPENS'] += 1
                    if not sc2.closed:
                        problems.append(('CLOSE_HAPPENS', {'connection': 'second connection of the same client', 'send_log': sc2.log[-8:]}))
        if endpoint == 'file' and case.get('reopen') and W['comp'].closed and ok and not problems:
            # the same File component is opened again (its _open event, with another file): the new session carries exactly what is written
            # to it, payload after payload with the buffer drained in between, and ends when its close is asked for - not before
            import circuits.io.file as fmod2
            sc2 = Script(case.get('script2', []))
            sc2.signals = W['signals']
            W['file_script'][0] = sc2
            tmp2 = tempfile.NamedTemporaryFile(prefix='vc11b-', delete=False)
            tmp2.close()
            try:
                n_sig = len(W['signals'])
                W['root'].fire(fmod2._open(tmp2.name, case.get('fmode2', 'w')), 'fil')
                W['settle']()
                if not W['comp'].closed:
                    marks.add('file_component_opened_again_after_its_close')
                    second = [b'second-1;', b'second-22;', b'', b'second-333.']
                    for k2, d in enumerate(second):
                        if W['comp'].closed:
                            counts['ALL_DELIVERED'] += 1
                            problems.append(('ALL_DELIVERED', {'connection': 'second session of the same File', 'note': 'the File closed itself although no close was '
                                                               'requested in this session and no write failed', 'before_write': k2, 'signals': W['signals'][n_sig:]}))
                            break
                        W['write'](0, d)
                        for _r in range(6 + 2 * len(sc2.outcomes)):
                            if not W['pump']():
                                break
                    else:
                        W['close'](0)
                        for _r in range(12 + 2 * len(sc2.outcomes)):
                            if not W['pump']():
                                break
                        counts['PREFIX'] += 1
                        with open(tmp2.name, 'rb') as fh:
                            acc2 = fh.read()
                        want2 = b''.join(second)
                        if want2[:len(acc2)] != acc2 or (not sc2.dead and acc2 != want2):
                            problems.append(('PREFIX', {'connection': 'second session of the same File', 'accepted': _short(acc2), 'written_to_it': _short(want2),
                                                        'send_log': sc2.log[-8:]}))
                        if not sc2.dead:
                            counts['CLOSE_HAPPENS'] += 1
                            if not W['comp'].closed:
                                problems.append(('CLOSE_HAPPENS', {'connection': 'second session of the same File', 'send_log': sc2.log[-8:]}))
            finally:
                try:
                    os.unlink(tmp2.name)
                except OSError:
                    pass
        exc = [s for s in W['signals'] if s.startswith('exception:')]
        if exc and not problems:
            problems.append(('HANDLER_RAISED', {'exceptions': exc[:3]}))
    finally:
        if endpoint == 'file':
            import circuits.io.file as fmod
            fmod.fd_write = os.write
            try:
                os.unlink(W['tmp'])
            except OSError:
                pass
        for s in W.get('socks', []):
            if s is not None:
                try:
                    socket.socket.close(s)
                except OSError:
                    pass
        if 'listen' in W:
            W['listen'].close()
        try:
            os.close(W['poller']._ctrl_recv)
            os.close(W['poller']._ctrl_send)
        except OSError:
            pass
    nontrivial = any(o in ('P', 'Z', 'EAGAIN', 'EINTR', 'ENOBUFS') for o in case['script'])
    return problems[:3], {'marks': marks, 'counts': counts, 'nontrivial': nontrivial}


def _short(b):
    b = bytes(b)
    return (b[:60] + b'...(%d bytes)' % len(b)) if len(b) > 80 else b


# ------------------------------------------------------------------------------------------------
def enum_cases(maxlen, part, parts):
    n = 0
    for L in range(0, maxlen + 1):
        for script in itertools.product(OUTCOMES, repeat=L):
            # a script is only interesting up to its first fatal outcome
            if any(o in FATAL for o in script[:-1]):
                continue
            for endpoint in ('server', 'client', 'file'):
                for pset in ('s', 'e', 'm') + (('u',) if endpoint == 'file' else ()):
                    nsteps = len(PAYLOAD_SETS[pset])
                    for close_at in (None, 0, 1, nsteps - 1):
                        n += 1
                        if n % parts != part:
                            continue
                        yield {'endpoint': endpoint, 'payloads': pset, 'script': list(script), 'close_at': close_at}
                        if endpoint != 'file':
                            yield {'endpoint': endpoint, 'payloads': pset, 'script': list(script), 'close_at': close_at, 'close_by': 'eof'}
                        if endpoint == 'client' and (any(o in FATAL for o in script) or close_at is not None):
                            yield {'endpoint': endpoint, 'payloads': pset, 'script': list(script), 'close_at': close_at, 'reconnect': True,
                                   'pump_between': n % 2 == 0}
                        if endpoint == 'server' and close_at in (None, 1):
                            yield {'endpoint': endpoint, 'payloads': pset, 'script': list(script), 'close_at': close_at, 'close_all': True}


def corpus():
    cs = []
    for endpoint in ('server', 'client', 'file'):
        cs.append({'endpoint': endpoint, 'payloads': 's', 'script': [], 'close_at': None})
        cs.append({'endpoint': endpoint, 'payloads': 'm', 'script': ['P', 'EAGAIN', 'P', 'Z', 'EINTR', 'P', 'ENOBUFS', 'A'], 'close_at': 1})
        cs.append({'endpoint': endpoint, 'payloads': 'e', 'script': ['EAGAIN', 'EAGAIN', 'A', 'EINTR'], 'close_at': 0})
        cs.append({'endpoint': endpoint, 'payloads': 's', 'script': ['P', 'EPIPE'], 'close_at': None})
        cs.append({'endpoint': endpoint, 'payloads': 's', 'script': ['A', 'ECONNRESET'], 'close_at': 2})
        cs.append({'endpoint': endpoint, 'payloads': 's', 'script': ['P', 'P', 'P', 'P', 'P', 'P'], 'close_at': None, 'big': True})
        cs.append({'endpoint': endpoint, 'payloads': 'm', 'script': ['Z', 'Z', 'P'], 'close_at': None, 'pump_between': False})
    for script in (['P', 'P', 'P', 'P', 'P', 'P', 'P', 'P'], ['P', 'EAGAIN', 'P', 'Z', 'P', 'EINTR', 'P'], ['A', 'P', 'EPIPE']):
        for close_at in (None, 1):
            cs.append({'endpoint': 'file', 'payloads': 'u', 'script': script, 'close_at': close_at})
    for script in (['EPIPE'], ['A', 'ECONNRESET'], ['P', 'EPIPE'], ['EAGAIN', 'EPIPE'], ['A', 'A', 'A']):
        for pset in ('s', 'm'):
            for close_at in (None, 1):
                cs.append({'endpoint': 'client', 'payloads': pset, 'script': script, 'close_at': close_at, 'reconnect': True, 'pump_between': False})
                cs.append({'endpoint': 'client', 'payloads': pset, 'script': script, 'close_at': close_at, 'reconnect': True, 'script2': ['P', 'EAGAIN', 'P']})
    for endpoint in ('server', 'client'):
        for script in ([], ['P', 'P', 'EAGAIN', 'P'], ['Z', 'EAGAIN', 'A', 'P', 'P'], ['A', 'P', 'EPIPE']):
            for close_at in (None, 1, 2):
                cs.append({'endpoint': endpoint, 'payloads': 'm', 'script': script, 'close_at': close_at, 'close_by': 'eof', 'pump_between': False})
    cs.append({'endpoint': 'server', 'two': True, 'payloads': 's', 'script': ['P', 'EAGAIN'], 'script2': ['Z', 'P'], 'close_at': 3, 'close_by': 'eof'})
    # a connection whose socket has descriptor number 0
    for endpoint in ('client', 'server'):
        for script in ([], ['P', 'EAGAIN', 'P'], ['Z', 'P', 'EPIPE']):
            for close_at in (None, 1):
                cs.append({'endpoint': endpoint, 'fdnum': 0, 'payloads': 'm', 'script': script, 'close_at': close_at})
    # File opened for reading and writing / appending
    for fm in ('w+', 'a+', 'r+', 'a'):
        for script in ([], ['P', 'EAGAIN', 'P'], ['Z', 'P', 'EINTR']):
            for close_at in (None, 1, 2):
                for pb in (True, False, 'drain'):
                    cs.append({'endpoint': 'file', 'fmode': fm, 'payloads': 'm', 'script': script, 'close_at': close_at, 'pump_between': pb})
                    if pb is not True:
                        cs.append({'endpoint': 'file', 'fmode': fm, 'payloads': 'm', 'script': script, 'close_at': close_at, 'pump_between': pb, 'reopen': True,
                                   'script2': ['P', 'EAGAIN', 'P'] if close_at else [], 'fmode2': 'w' if fm != 'a+' else 'a'})
    # an unrelated component leaves the tree while data is buffered (between writes, before anything was polled / after partial sends)
    for endpoint in ('server', 'client', 'file'):
        for script in (['P', 'EAGAIN', 'P'], ['EAGAIN', 'Z', 'P', 'P']):
            for at in (1, 2):
                for which in ('leaf', 'branch'):
                    for pb in (True, False):
                        cs.append({'endpoint': endpoint, 'payloads': 'm', 'script': script, 'close_at': None, 'pump_between': pb, 'bystander_leaves': [at, which]})
    cs.append({'endpoint': 'client', 'tee': True, 'payloads': 'm', 'script': ['P', 'EAGAIN'], 'script2': ['Z', 'P'], 'close_at': None, 'pump_between': False,
               'bystander_leaves': [2, 'branch']})
    cs.append({'endpoint': 'server', 'two': True, 'payloads': 's', 'script': ['P', 'EAGAIN'], 'script2': ['EINTR', 'P', 'Z'], 'close_at': 3, 'bystander_leaves': [2, 'leaf']})
    # more payloads queued at once than the endpoint's configured numbers (listen backlog 5000 by default, or a small one given)
    for endpoint in ('server', 'client', 'file'):
        cs.append({'endpoint': endpoint, 'payloads': 's', 'flood': 5300, 'script': ['EAGAIN', 'P', 'EINTR'], 'close_at': None, 'pump_between': False})
    for bl in (1, 8):
        for close_at in (None, 30):
            cs.append({'endpoint': 'server', 'payloads': 's', 'flood': 60, 'backlog': bl, 'script': ['EAGAIN', 'P', 'Z'], 'close_at': close_at, 'pump_between': False})
            cs.append({'endpoint': 'server', 'two': True, 'payloads': 's', 'flood': 60, 'backlog': bl, 'script': ['P', 'EAGAIN'], 'script2': ['Z', 'P'], 'close_at': close_at})
    # two clients on one channel: one peer slow, the other one taking everything at once (and the other way round, and both slow)
    for s1, s2 in ((['P', 'EAGAIN', 'P', 'Z', 'P'], []), ([], ['P', 'P', 'EAGAIN', 'P']), (['P', 'EAGAIN', 'P'], ['Z', 'P', 'P']), (['P', 'EPIPE'], ['P', 'P'])):
        for close_at in (None, 1, 2):
            for pb in (True, False):
                cs.append({'endpoint': 'client', 'tee': True, 'payloads': 'm', 'script': s1, 'script2': s2, 'close_at': close_at, 'pump_between': pb})
    for s1, s2 in ((['P', 'EAGAIN'], ['EINTR', 'P', 'Z']), (['EPIPE'], ['P', 'P']), (['ENOBUFS', 'P'], ['ECONNRESET'])):
        for close_at in (None, 1, 3):
            cs.append({'endpoint': 'server', 'two': True, 'payloads': 's', 'script': s1, 'script2': s2, 'close_at': close_at})
            cs.append({'endpoint': 'server', 'two': True, 'payloads': 's', 'script': s1, 'script2': s2, 'close_at': close_at, 'close_all': True})
    return cs


def gen_case(rng):
    L = rng.randint(4, 12)
    script = []
    for _ in range(L):
        o = rng.choice(OUTCOMES)
        script.append(o)
        if o in FATAL:
            break
    endpoint = rng.choice(['server', 'client', 'file'])
    pset = rng.choice('semu' if endpoint == 'file' else 'sem')
    case = {'endpoint': endpoint, 'payloads': pset, 'script': script,
            'close_at': rng.choice([None, 0, 1, 2, len(PAYLOAD_SETS[pset]) - 1]), 'pump_between': rng.choice([True, True, True, False, 'drain'])}
    if rng.random() < 0.15:
        case['bystander_leaves'] = [rng.randint(0, len(PAYLOAD_SETS[pset]) - 1), rng.choice(['leaf', 'branch'])]
    if endpoint == 'file' and rng.random() < 0.5:
        case['fmode'] = rng.choice(['w+', 'a+', 'r+', 'a'])
    if endpoint == 'file' and rng.random() < 0.3:
        case['reopen'] = True
        case['script2'] = [rng.choice(OUTCOMES[:6]) for _ in range(rng.randint(0, 5))]
        case['fmode2'] = rng.choice(['w', 'a', 'w+'])
    if endpoint != 'file' and rng.random() < 0.1:
        case['fdnum'] = 0
    if case['endpoint'] == 'server' and rng.random() < 0.3:
        case['close_all'] = True
    elif case['endpoint'] != 'file' and rng.random() < 0.35:
        case['close_by'] = 'eof'
    if case['endpoint'] == 'client' and rng.random() < 0.5:
        case['reconnect'] = True
        case['script2'] = [rng.choice(OUTCOMES[:6]) for _ in range(rng.randint(0, 5))]
    elif case['endpoint'] == 'client' and rng.random() < 0.5:
        case['tee'] = True
        case['script2'] = [rng.choice(OUTCOMES[:6]) for _ in range(rng.randint(0, 6))]
    if case['endpoint'] == 'server' and rng.random() < 0.4:
        case['two'] = True
        case['script2'] = [rng.choice(OUTCOMES[:6]) for _ in range(rng.randint(0, 6))]
    return case


def plan(tier, seed):
    if tier == 'quick':
        return ([{'kind': 'corpus'}] + [{'kind': 'enum', 'maxlen': 3, 'part': i, 'parts': 14} for i in range(14)] +
                [{'kind': 'random', 'seed': seed * 1000 + i, 'n': 300} for i in range(4)])
    return ([{'kind': 'corpus'}] + [{'kind': 'enum', 'maxlen': 5, 'part': i, 'parts': 48} for i in range(48)] +
            [{'kind': 'random', 'seed': seed * 100000 + i, 'n': 4000} for i in range(16)])


def evaluate_case(b, case):
    try:
        with cpu_budget(60):
            problems, info = run_case(case)
    except BudgetExceeded as e:
        b.fail(case, 'NO_PROGRESS', {'error': str(e)}, dedup='')
        return
    except LookupError as e:
        b.inconclusive_because(str(e))
        return
    except Exception as e:
        import traceback
        b.fail(case, 'HARNESS_RAISED', {'error': repr(e), 'tb': traceback.format_exc(limit=8)}, dedup=type(e).__name__)
        return
    b.case(case, nontrivial=info.get('nontrivial', False))
    for m in info.get('marks', ()):
        b.reached(m)
    first = {}
    for clause, detail in problems:
        first.setdefault(clause, detail)
    for clause, n in info.get('counts', {}).items():
        good = n - sum(1 for c, _ in problems if c == clause)
        if good > 0:
            b.ok(clause, good)
    for clause, detail in first.items():
        b.fail(case, clause, detail, dedup=case['endpoint'])


def run_batch(spec):
    import circuits  # noqa: F401
    b = Batch(PROPERTY)
    if spec['kind'] == 'corpus':
        for case in corpus():
            evaluate_case(b, case)
    elif spec['kind'] == 'enum':
        for case in enum_cases(spec['maxlen'], spec['part'], spec['parts']):
            evaluate_case(b, case)
    else:
        rng = random.Random(spec['seed'])
        for _ in range(spec['n']):
            evaluate_case(b, gen_case(rng))
    return b.result()


def run_replay(case):
    b = Batch(PROPERTY)
    evaluate_case(b, unjson(case))
    return b.result()

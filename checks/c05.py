"""C05 - `complete` fires exactly once, after the whole causal closure has drained.

Oracle: ghost causality tree (who fired what, from plain handlers and generator continuation
steps) + log positions of every handler step, vs. where `<name>_complete` was fired/dispatched;
bounded liveness decided at quiescence of a real run() (DESIGN.md section 4, C05).
"""
import random

from vlib.batch import Batch, BudgetExceeded, cpu_budget, unjson

PROPERTY = 'C05'
LEVEL = 'exploration'
RULE = ('fixed corpus (straight chain, fan-out, nested complete-requesting events, each abnormal descendant kind: cancelled before dispatch, '
        'stopped, raising, fired from a generator continuation step, several roots at once, complete_channels override, generator handlers '
        'suspended in call()/wait() with and without timeouts - timeout caught and followed by a plain step, by another call()/wait(), with a '
        'second generator handler on the same event) + seeded random '
        'finite event trees (fan-out <= 3, depth <= 4); every program runs under the real run() in the checking thread; non-trivial = a '
        'complete-requesting event whose closure has >= 3 events and depth >= 2; distinct = hash of the program')
ASSUMPTIONS = [
    'the ghost closure of an event = events fired (transitively) by the harness handlers while handling it, recorded by the handlers themselves',
    'liveness ("always eventually fired") is decided at quiescence: queue empty and no runnable task for two loop iterations',
    'events cancelled only before their dispatch; a cancelled event has no handler steps',
]
REQUIRED = ['handler_flushed_the_queue_and_fired_afterwards', 'closure_contains_events_nobody_handles', 'handler_suspended_by_sleep', 'raising_descendant_asks_for_feedback_of_its_own', 'success_requested_one_handler_raised_another_finished_later', 'complete_requested', 'nested_complete', 'descendant_cancelled', 'descendant_stopped', 'descendant_raised',
            'descendant_from_generator_step', 'several_roots_in_flight', 'complete_channels_override', 'closure_depth_3plus',
            'handler_suspended_in_call_or_wait', 'call_or_wait_timed_out_in_closure', 'suspended_again_right_after_timeout',
            'root_events_fired_on_a_component_that_joins_later', 'complete_requesting_event_object_fired_again', 'feedback_event_handler_in_closure', 'derived_child_event_in_closure', 'driven_by_tick_from_the_calling_thread', 'manager_had_an_earlier_run', 'earlier_run_in_another_thread', 'earlier_run_ended_with_exit_code']
REQUIRED_OBLIGATIONS = ['COMPLETE_ONCE', 'COMPLETE_AFTER_CLOSURE', 'COMPLETE_EVENTUALLY']
WORKER_TIMEOUT = {'quick': 300, 'thorough': 1500}
ENGINE = 'stepping-driver'
TECHNIQUE = 'runtime monitoring: ghost causality tree + step positions from generated handlers vs. observed fire/dispatch of *_complete, under run()'
LEVEL_TEXT = ('Generated event trees run under the real run(); handlers record who fired what (ghost causality) and every handler step; for each '
              'complete-requesting event the check demands exactly one *_complete, fired after the last handler step of its whole ghost closure, '
              'and present at quiescence. Held = no clause failed on the trees run (sampling of all finite trees).')
LEVEL_NOTE = ('Trusted: ghost log, quiescence detector (a generate_events handler of the harness), instance-level fire() wrapper used to see the '
              'fire time of feedback events (falls back to dispatch time if bypassed).')


def closure(w, uid):
    kids = {}
    for u, info in w.events.items():
        kids.setdefault(info['parent'], []).append(u)
    out, stack = [], [uid]
    while stack:
        u = stack.pop()
        out.append(u)
        stack.extend(kids.get(u, []))
    return out


def depth_of(w, uid):
    d = 0
    while w.events[uid]['parent'] is not None:
        uid = w.events[uid]['parent']
        d += 1
    return d


def earlier_run(w, pre):
    """The manager has a life before the program under test: it was run() once - in another thread or in this one - and that run was ended
    from its `started` handler, by stop() or by SystemExit(code)."""
    import threading

    from circuits import BaseComponent, handler
    code = pre.get('code')

    class Ender(BaseComponent):
        @handler('started')
        def _v_started(self, *args):
            if code is not None:
                raise SystemExit(code)
            self.root.stop()      # (stop() of a registered component has no effect: the root is what runs)
    ender = Ender().register(w.app)
    while len(w.app):
        w.app.flush()
    res = {}

    def target():
        try:
            w.app.run()
            res['code'] = None
        except SystemExit as e:
            res['code'] = e.code
    if pre.get('thread'):
        t = threading.Thread(target=target, daemon=True)
        t.start()
        t.join(30)
        if t.is_alive():
            return 'the earlier run() in a helper thread did not end'
    else:
        target()
    ender.unregister()
    for _ in range(20):
        if not len(w.app):
            break
        w.app.flush()
    return None


def run_case(case):
    from vlib.prog import World
    w = World({'handlers': case['handlers'], 'mk': case.get('mk'), 'unprobed': case.get('unprobed'),
               'probe_names': [f['name'] for f in case['fires']] + ['slow', 'after', 'k']})
    if case.get('earlier_run'):
        why = earlier_run(w, case['earlier_run'])
        if why:
            return None, {'inconclusive': why}, w
    carrier = None
    if case.get('carrier'):
        # the root events are fired on a component that is not registered yet (they wait in its own queue); it then joins the tree, and
        # after everything has drained it leaves and joins again: nothing of the first round may be left to happen a second time
        from circuits import BaseComponent
        carrier = BaseComponent()
        for spec in case['fires']:
            w.fire(spec, target=carrier)
        carrier.register(w.app)
    else:
        roots = [w.fire(spec)[1] for spec in case['fires']]
    if case.get('drive') == 'tick':
        # the manager is not run(): the calling thread drives it with tick() until nothing is left (no timeouts in such programs)
        settled = w.settle(max_ticks=1500)
        w.run_raised = None
    else:
        settled = w.run(max_iters=1500)
    if carrier is not None and settled and w.run_raised is None:
        carrier.unregister()
        w.settle(max_ticks=300)
        carrier.register(w.app)
        w.settle(max_ticks=300)
        carrier.unregister()
        w.settle(max_ticks=300)
        while len(carrier):          # ... nor when it is flushed as a root of its own
            carrier.flush()
        settled = w.settle(max_ticks=300)
    for _ in range(case.get('refire', 0) if carrier is None else 0):
        # the same event OBJECTS are fired once more after their earlier firing has been handled completely (what a persistent Timer
        # does, or a retry from a <name>_complete handler): every firing has a closure and a completion of its own
        if not settled or w.run_raised is not None:
            break
        for i, uid in enumerate(roots):
            if not w.events[uid]['spec'].get('cancel'):
                roots[i] = w.refire(uid)[1]
        if case.get('drive') == 'tick':
            settled = w.settle(max_ticks=1500)
        else:
            settled = w.run(max_iters=1500)
    if w.run_raised is not None:
        return [('LOOP_RAISED', {'error': repr(w.run_raised)})], {'marks': set(), 'counts': {}}, w
    if not settled:
        return None, {'inconclusive': 'run() did not become quiescent in 1500 iterations'}, w
    return evaluate(case, w)


def evaluate(case, w):
    problems = []
    marks = set()
    counts = dict.fromkeys(REQUIRED_OBLIGATIONS, 0)
    steps = {}
    fbf = {}
    fbd = {}
    for i, e in enumerate(w.log):
        k = e[0]
        if k in ('HS', 'HE', 'GY', 'GR', 'P', 'PX', 'D', 'SUSP', 'RX'):
            steps.setdefault(e[1], []).append(i)
        elif k == 'FBF' and e[1] == 'complete':
            fbf.setdefault(e[2], []).append(i)
        elif k == 'FB' and e[1] == 'complete':
            fbd.setdefault(e[2], []).append(i)
    gen_hids = {h['hid'] for h in case['handlers'] if h.get('gen')}
    from_gen_step = set()
    # an event is "fired from a generator continuation step" if its F entry follows a GR of (parent, by)
    resumed = set()
    for e in w.log:
        if e[0] in ('GR', 'RX'):
            resumed.add((e[1], e[2]))
        elif e[0] == 'F' and e[2] is not None and (e[2], e[3]) in resumed:
            from_gen_step.add(e[1])
    stopped = {e[1] for e in w.log if e[0] == 'STOP'}
    for u_, inf_ in w.events.items():
        if inf_.get('system') and inf_['parent'] is not None:
            marks.add('feedback_event_handler_in_closure')
        if inf_.get('derived'):
            marks.add('derived_child_event_in_closure')
    susp = {}      # event -> [(log index, kind)] of its handlers' SUSP / RX entries
    for i, e in enumerate(w.log):
        if e[0] == 'SUSP':
            susp.setdefault(e[1], []).append((i, e[2], 'SUSP'))
        elif e[0] == 'RX':
            susp.setdefault(e[1], []).append((i, e[2], e[5]))
    raised = {e[1] for e in w.log if e[0] == 'PX'}
    if case.get('refire') and any(i.get('refire_of') is not None and i['flags'].get('complete') for i in w.events.values()):
        marks.add('complete_requesting_event_object_fired_again')
    if case.get('carrier'):
        marks.add('root_events_fired_on_a_component_that_joins_later')
    if case.get('drive') == 'tick':
        marks.add('driven_by_tick_from_the_calling_thread')
    pre = case.get('earlier_run')
    if pre:
        marks.add('manager_had_an_earlier_run')
        if pre.get('thread'):
            marks.add('earlier_run_in_another_thread')
        if pre.get('code') is not None:
            marks.add('earlier_run_ended_with_exit_code')
    if any(a[0] == 'sleep' for h in case['handlers'] for a in h['body']):
        marks.add('handler_suspended_by_sleep')
    for h in case['handlers']:
        acts = [a[0] for a in h['body']]
        if 'flush' in acts and 'fire' in acts[acts.index('flush'):]:
            marks.add('handler_flushed_the_queue_and_fired_afterwards')
    unp = set(case.get('unprobed') or ())
    if unp and sum(1 for i in w.events.values() if i['name'] in unp and i['parent'] is not None) >= 2:
        marks.add('closure_contains_events_nobody_handles')
    roots_complete = [u for u, info in w.events.items() if info['flags'].get('complete') and info['parent'] is None]
    if len(roots_complete) >= 2:
        marks.add('several_roots_in_flight')
    nontrivial = False
    for uid, info in w.events.items():
        if not info['flags'].get('complete'):
            continue
        if info['cancelled']:
            continue  # a cancelled event is never handled: nothing is promised about its own complete
        marks.add('complete_requested')
        cl = closure(w, uid)
        if any(w.events[u]['flags'].get('complete') for u in cl if u != uid):
            marks.add('nested_complete')
        d = max(depth_of(w, u) for u in cl) - depth_of(w, uid)
        if d >= 3:
            marks.add('closure_depth_3plus')
        if len(cl) >= 3 and d >= 2:
            nontrivial = True
        feats = set()
        for u in cl:
            if u == uid:
                continue
            if w.events[u]['cancelled']:
                feats.add('descendant_cancelled')
            if u in stopped:
                feats.add('descendant_stopped')
            if u in raised:
                feats.add('descendant_raised')
            if u in from_gen_step:
                feats.add('descendant_from_generator_step')
            fl = w.events[u]['flags']
            if u in raised and (fl.get('success') or fl.get('failure')):
                feats.add('raising_descendant_asks_for_feedback_of_its_own')
                if fl.get('success') and any(h['gen'] and ['raise'] not in h['body'] and ['raise', 'base'] not in h['body']
                                              for h in case['handlers'] if h['name'] == w.events[u]['name']):
                    feats.add('success_requested_one_handler_raised_another_finished_later')
        if uid in raised:
            feats.add('descendant_raised')
        for u in cl:
            per_handler = {}
            for i, hid, what in susp.get(u, ()):
                per_handler.setdefault(hid, []).append(what)
            for seq in per_handler.values():
                feats.add('handler_suspended_in_call_or_wait')
                if 'TIMEOUT' in seq:
                    feats.add('call_or_wait_timed_out_in_closure')
                if any(a == 'TIMEOUT' and b == 'SUSP' for a, b in zip(seq, seq[1:])):
                    # RX TIMEOUT directly followed by the next SUSP: nothing else was logged by that handler in between?
                    feats.add('suspended_again_right_after_timeout')
        marks |= feats
        if info['spec'].get('complete_channels'):
            marks.add('complete_channels_override')
        fired = fbf.get(uid, [])
        disp = fbd.get(uid, [])
        n = max(len(fired), len(disp))
        last = max((i for u in cl for i in steps.get(u, [])), default=-1)
        detail = {'event': uid, 'name': info['name'], 'closure': sorted(cl), 'features': sorted(feats),
                  'complete_fired_at': fired, 'complete_dispatched_at': disp, 'last_closure_step_at': last}
        counts['COMPLETE_EVENTUALLY'] += 1
        if n == 0:
            problems.append(('COMPLETE_EVENTUALLY', detail))
            continue
        counts['COMPLETE_ONCE'] += 1
        if n != 1 or len(disp) != 1:
            problems.append(('COMPLETE_ONCE', detail))
        counts['COMPLETE_AFTER_CLOSURE'] += 1
        at = min(fired) if fired else min(disp)
        if at < last:
            late = [u for u in cl if any(i > at for i in steps.get(u, []))]
            detail['events_with_steps_after_complete'] = late
            problems.append(('COMPLETE_AFTER_CLOSURE', detail))
    return problems, {'marks': marks, 'counts': counts, 'nontrivial': nontrivial}, w


# ------------------------------------------------------------------------------------------------
C = {'complete': True}


def HD(hid, name, body, gen=False, prio=0):
    return {'hid': hid, 'name': name, 'prio': prio, 'gen': gen, 'body': body}


def corpus():
    cs = []
    # straight chain of four (as in the repository's test) and fan-out
    cs.append({'name': 'chain', 'handlers': [HD(1, 'a', [['fire', {'name': 'b'}]]), HD(2, 'b', [['fire', {'name': 'c'}]]),
                                             HD(3, 'c', [['fire', {'name': 'd'}]]), HD(4, 'd', [])], 'fires': [{'name': 'a', 'flags': C}]})
    cs.append({'name': 'fanout-nested', 'handlers': [
        HD(1, 'a', [['fire', {'name': 'b', 'flags': C}], ['fire', {'name': 'b'}], ['fire', {'name': 'c', 'flags': C}]]),
        HD(2, 'b', [['fire', {'name': 'c'}], ['fire', {'name': 'd'}]]), HD(3, 'c', [['fire', {'name': 'd', 'flags': C}]]), HD(4, 'd', []), HD(5, 'd', [], prio=1)],
        'fires': [{'name': 'a', 'flags': C}, {'name': 'a', 'flags': C}, {'name': 'b', 'flags': C}]})
    # descendant cancelled before dispatch (directly and deeper)
    cs.append({'name': 'cancelled', 'handlers': [HD(1, 'a', [['fire', {'name': 'b', 'cancel': True}], ['fire', {'name': 'c'}]]), HD(2, 'b', []),
                                                 HD(3, 'c', [['fire', {'name': 'd', 'cancel': True}]]), HD(4, 'd', [])],
               'fires': [{'name': 'a', 'flags': C}]})
    # stopped / raising descendants
    cs.append({'name': 'stop-raise', 'handlers': [HD(1, 'a', [['fire', {'name': 'b'}], ['fire', {'name': 'c'}], ['raise']]),
                                                  HD(2, 'b', [['stop'], ['fire', {'name': 'd'}]], prio=1), HD(3, 'b', [['fire', {'name': 'd'}]]),
                                                  HD(4, 'c', [['fire', {'name': 'd'}], ['raise']]), HD(5, 'd', [])],
               'fires': [{'name': 'a', 'flags': C}]})
    # descendants fired from generator continuation steps (last step and middle step)
    cs.append({'name': 'gen-steps', 'handlers': [
        HD(1, 'a', [['fire', {'name': 'b'}], ['yield', None], ['fire', {'name': 'c'}], ['yield', 'x'], ['fire', {'name': 'd'}]], gen=True),
        HD(2, 'b', [['yield', None], ['fire', {'name': 'c'}]], gen=True), HD(3, 'c', [['fire', {'name': 'd'}]]),
        HD(4, 'd', [['yield', None], ['yield', None]], gen=True)], 'fires': [{'name': 'a', 'flags': C}]})
    cs.append({'name': 'gen-last-step', 'handlers': [HD(1, 'a', [['yield', None], ['fire', {'name': 'b'}]], gen=True),
                                                     HD(2, 'b', [['fire', {'name': 'c'}]]), HD(3, 'c', [['fire', {'name': 'd'}]]), HD(4, 'd', [])],
               'fires': [{'name': 'a', 'flags': C}]})
    # complete_channels override
    cs.append({'name': 'channels', 'handlers': [HD(1, 'a', [['fire', {'name': 'b'}]]), HD(2, 'b', [])],
               'fires': [{'name': 'a', 'flags': C, 'complete_channels': ['elsewhere']}]})
    # generator raising in the closure
    cs.append({'name': 'gen-raise', 'handlers': [HD(1, 'a', [['fire', {'name': 'b'}]]), HD(2, 'b', [['yield', None], ['raise']], gen=True),
                                                 HD(3, 'b', [['fire', {'name': 'c'}]]), HD(4, 'c', [])], 'fires': [{'name': 'a', 'flags': C}]})
    # consequences that run through feedback events and derived events: a failing descendant whose <name>_failure handler fires further
    # events (the shape of circuits.web's request_failure -> error response), and handlers that fire event.child(...) events
    F = {'failure': True}
    cs.append({'name': 'failure-chain', 'handlers': [
        HD(1, 'a', [['fire', {'name': 'b', 'flags': F}], ['fire', {'name': 'c'}]]), HD(2, 'b', [['raise']]), HD(3, 'b_failure', [['fire', {'name': 'c'}], ['fire', {'name': 'd'}]]),
        HD(4, 'c', [['fire', {'name': 'd'}]]), HD(5, 'd', [['fire', {'name': 'e'}]]), HD(6, 'e', [])], 'fires': [{'name': 'a', 'flags': C}]})
    cs.append({'name': 'failure-chain-gen', 'handlers': [
        HD(1, 'a', [['fire', {'name': 'b', 'flags': F}]]), HD(2, 'b', [['yield', None], ['raise']], gen=True), HD(3, 'b_failure', [['fire', {'name': 'c'}]]),
        HD(4, 'c', [['yield', None], ['fire', {'name': 'd'}]], gen=True), HD(5, 'd', [['fire', {'name': 'e'}]]), HD(6, 'e', [])], 'fires': [{'name': 'a', 'flags': C}, {'name': 'a', 'flags': C}]})
    cs.append({'name': 'derived-chain', 'handlers': [
        HD(1, 'a', [['firechild', 'part'], ['fire', {'name': 'c'}]]), HD(2, 'a_part', [['fire', {'name': 'c'}], ['firechild', 'sub']]), HD(3, 'a_part_sub', [['fire', {'name': 'd'}]]),
        HD(4, 'c', [['fire', {'name': 'd'}]]), HD(5, 'd', [['fire', {'name': 'e'}]]), HD(6, 'e', [])], 'fires': [{'name': 'a', 'flags': C}]})
    # events in the closure that ask for feedback of their own (success / failure / notify, any combination), with a handler that raises next
    # to a generator handler that finishes later, in both priority orders; raising generators next to plain handlers; two generators
    for k, fl in enumerate(({'success': True}, {'success': True, 'failure': True}, {'failure': True}, {'success': True, 'complete': True},
                            {'success': True, 'notify': True})):
        for order in (0, 1):
            cs.append({'name': 'feedback-in-closure-%d-%d' % (k, order), 'handlers': [
                HD(1, 'a', [['fire', {'name': 'step', 'flags': fl}]]),
                HD(2, 'step', [['raise']], prio=order), HD(3, 'step', [['yield', None], ['fire', {'name': 'late'}], ['yield', 'v']], gen=True, prio=1 - order),
                HD(4, 'late', [['fire', {'name': 'e'}]]), HD(5, 'e', [])], 'fires': [{'name': 'a', 'flags': C}]})
        cs.append({'name': 'feedback-in-closure-%d-gens' % k, 'handlers': [
            HD(1, 'a', [['yield', None], ['fire', {'name': 'step', 'flags': fl}], ['fire', {'name': 'step', 'flags': fl}]], gen=True),
            HD(2, 'step', [['yield', None], ['raise']], gen=True, prio=1), HD(3, 'step', [['yield', None], ['yield', None], ['fire', {'name': 'late'}]], gen=True),
            HD(6, 'step', [['ret', 'p']], prio=2), HD(4, 'late', [['yield', None], ['fire', {'name': 'e'}]], gen=True), HD(5, 'e', [])],
            'fires': [{'name': 'a', 'flags': C}, {'name': 'step', 'flags': dict(fl, complete=True)}]})
    # events of the closure that nobody handles at all (no handler of that name, no catch-all - the harness's probe listens by name here),
    # fired several times (the first dispatch fills the handler cache, the later ones find the empty entry), from plain handlers and from
    # later generator steps, with and without feedback flags of their own
    cs.append({'name': 'unhandled-events-in-closure', 'unprobed': ['note'], 'handlers': [
        HD(1, 'job', [['fire', {'name': 'work'}], ['fire', {'name': 'note'}]]), HD(2, 'work', [['fire', {'name': 'note'}], ['fire', {'name': 'note', 'flags': {'success': True}}]]),
        HD(3, 'late', [['yield', None], ['fire', {'name': 'note'}], ['yield', None], ['fire', {'name': 'note', 'flags': C}]], gen=True)],
        'fires': [{'name': 'job', 'flags': C}, {'name': 'job', 'flags': C}, {'name': 'job', 'flags': C}, {'name': 'late', 'flags': C}, {'name': 'late', 'flags': C},
                  {'name': 'note', 'flags': C}]})
    cs.append({'name': 'unhandled-events-only', 'unprobed': ['note'], 'handlers': [HD(1, 'job', [['fire', {'name': 'note'}]] * 3)],
               'fires': [{'name': 'job', 'flags': C}, {'name': 'job', 'flags': C}], 'drive': 'tick'})
    # handlers that flush the queue themselves between two fires (plain handler, later generator step, nested two deep)
    cs.append({'name': 'handler-flushes-then-fires', 'handlers': [
        HD(1, 'a', [['fire', {'name': 'b'}], ['flush'], ['fire', {'name': 'c'}]]), HD(2, 'b', [['fire', {'name': 'd'}], ['flush'], ['fire', {'name': 'd'}]]),
        HD(3, 'c', [['yield', None], ['fire', {'name': 'd'}], ['flush'], ['fire', {'name': 'e'}], ['yield', None]], gen=True),
        HD(4, 'd', [['yield', None], ['yield', None]], gen=True), HD(5, 'e', [['yield', None], ['fire', {'name': 'f'}]], gen=True), HD(6, 'f', [])],
        'fires': [{'name': 'a', 'flags': C}, {'name': 'c', 'flags': C}, {'name': 'a', 'flags': C}]})
    # handlers of the closure suspended by `yield sleep(0)` before and after they fire
    cs.append({'name': 'sleeping-handlers-in-closure', 'handlers': [
        HD(1, 'a', [['sleep', 0], ['fire', {'name': 'b'}], ['sleep', 0], ['sleep', 0], ['fire', {'name': 'c', 'flags': C}]], gen=True),
        HD(2, 'b', [['fire', {'name': 'd'}], ['sleep', 0], ['raise']], gen=True), HD(3, 'c', [['sleep', 0], ['fire', {'name': 'd'}]], gen=True),
        HD(4, 'd', [['sleep', 0], ['sleep', 0], ['fire', {'name': 'e'}]], gen=True), HD(5, 'e', [])], 'fires': [{'name': 'a', 'flags': C}, {'name': 'a', 'flags': C}]})
    # (events fired by a <name>_success handler are not part of the closure of what caused <name>: only observed)
    cs.append({'name': 'success-handler-fires', 'handlers': [
        HD(1, 'a', [['fire', {'name': 'b', 'flags': {'success': True}}]]), HD(2, 'b', [['fire', {'name': 'c'}]]), HD(3, 'b_success', [['fire', {'name': 'd'}]]),
        HD(4, 'c', []), HD(5, 'd', [['fire', {'name': 'e'}]]), HD(6, 'e', [])], 'fires': [{'name': 'a', 'flags': C}]})
    # the same programs on a manager with a past (an earlier run() in another thread / in this one, ended by stop() or an exit code),
    # run() again or driven by tick() from the calling thread
    for base in list(cs):
        for pre in ({'thread': True, 'code': 3}, {'thread': True, 'code': None}, {'thread': False, 'code': 3}, {'thread': False, 'code': None}):
            for drive in ('tick', 'run'):
                cs.append(dict(base, name='%s-after-%s-run-%s-%s' % (base['name'], 'thread' if pre['thread'] else 'own', pre['code'], drive),
                               earlier_run=pre, drive=drive))
        cs.append(dict(base, name=base['name'] + '-tick', drive='tick'))
        cs.append(dict(base, name=base['name'] + '-carrier', carrier=True))
        cs.append(dict(base, name=base['name'] + '-refire', refire=2))
        cs.append(dict(base, name=base['name'] + '-refire-tick', refire=1, drive='tick'))
        cs.append(dict(base, name=base['name'] + '-carrier-tick', carrier=True, drive='tick'))
    # generator handlers suspended in call()/wait() inside the closure; the callee outlasts the timeout
    slow = HD(8, 'slow', [['yield', None]] * 6 + [['fire', {'name': 'late'}]], gen=True)
    tail = [HD(9, 'quick', [['fire', {'name': 'd'}]]), HD(10, 'd', []), HD(11, 'late', [['fire', {'name': 'd'}]]), HD(12, 'after', [['fire', {'name': 'd'}]])]
    for nm, body, extra in [
            ('call-no-timeout', [['call', {'name': 'slow'}, {}], ['fire', {'name': 'after'}]], []),
            ('call-timeout-then-step', [['call', {'name': 'slow'}, {'timeout': 2}], ['yield', None], ['fire', {'name': 'after'}]], []),
            ('call-timeout-then-call', [['call', {'name': 'slow'}, {'timeout': 2}], ['call', {'name': 'quick'}, {}], ['fire', {'name': 'after'}]], []),
            ('wait-timeout-then-wait', [['wait', {'name': 'slow'}, {'timeout': 2}], ['wait', {'name': 'quick'}, {}], ['fire', {'name': 'after'}]], []),
            ('call-timeout-then-call-timeout', [['call', {'name': 'slow'}, {'timeout': 1}], ['call', {'name': 'slow'}, {'timeout': 2}],
                                                ['call', {'name': 'quick'}, {'timeout': 9}], ['fire', {'name': 'after'}]], []),
            ('call-timeout-then-call-2handlers', [['call', {'name': 'slow'}, {'timeout': 2}], ['call', {'name': 'quick'}, {}], ['fire', {'name': 'after'}]],
             [HD(2, 'a', [['yield', None]] * 14 + [['fire', {'name': 'late'}]], gen=True)]),
            ('call-timeout-then-call-2handlers-first', [['call', {'name': 'slow'}, {'timeout': 2}], ['call', {'name': 'quick'}, {}], ['fire', {'name': 'after'}]],
             [HD(2, 'a', [['yield', None]] * 14 + [['fire', {'name': 'late'}]], gen=True, prio=1)])]:
        cs.append({'name': nm, 'handlers': [HD(1, 'a', body, gen=True)] + extra + [slow] + tail, 'fires': [{'name': 'a', 'flags': C}]})
    return cs


def gen_suspending_case(rng):
    """A complete-requesting root whose generator handlers suspend in call()/wait() - some with timeouts the callee outlasts."""
    handlers = [HD(20, 'slow', [['yield', None]] * rng.randint(2, 7) + [['fire', {'name': 'late'}]], gen=True),
                HD(21, 'quick', [['fire', {'name': 'd'}]] if rng.random() < 0.7 else [['yield', 'q'], ['fire', {'name': 'd'}]], gen=rng.random() < 0.5),
                HD(22, 'd', []), HD(23, 'late', [['fire', {'name': 'd'}]] if rng.random() < 0.5 else []),
                HD(24, 'after', [['fire', {'name': 'd', 'flags': dict(C)}]] if rng.random() < 0.3 else [])]
    if not handlers[1]['gen']:
        handlers[1]['body'] = [a for a in handlers[1]['body'] if a[0] != 'yield']
    hid = 0
    for _ in range(rng.randint(1, 3)):
        hid += 1
        body = []
        for _ in range(rng.randint(1, 4)):
            r = rng.random()
            if r < 0.55:
                opts = {} if rng.random() < 0.35 else {'timeout': rng.choice([1, 2, 3, 5, 12])}
                spec = {'name': rng.choice(['slow', 'slow', 'quick'])}
                if rng.random() < 0.2:
                    spec['flags'] = dict(C)
                body.append([rng.choice(['call', 'call', 'wait']), spec, opts])
            elif r < 0.7:
                body.append(['yield', rng.choice([None, 'v'])])
            elif r < 0.9:
                body.append(['fire', {'name': rng.choice(['after', 'quick', 'd'])}])
            else:
                body += [['yield', None]] * rng.randint(3, 12)
        if rng.random() < 0.1:
            body.append(['raise'])
        handlers.append(HD(hid, 'a', body, gen=True, prio=rng.choice([0, 0, 1])))
    fires = [{'name': 'a', 'flags': dict(C)}]
    if rng.random() < 0.3:
        fires.append({'name': rng.choice(['a', 'slow']), 'flags': dict(C) if rng.random() < 0.7 else {}})
    return {'handlers': handlers, 'fires': fires}


def gen_case(rng):
    if rng.random() < 0.25:
        return gen_suspending_case(rng)
    case = gen_plain_case(rng)
    if rng.random() < 0.15:
        # some events of the closures go to a name nobody handles at all
        case['unprobed'] = ['u']
        for h in case['handlers']:
            h['body'] = [(['fire', dict(a[1], name='u')] if a[0] == 'fire' and rng.random() < 0.35 else a) for a in h['body']]
    if rng.random() < 0.2:
        case['mk'] = rng.choice(['attr', 'renamed'])   # events whose name is not their class name
    r = rng.random()
    if r < 0.25:
        case['drive'] = 'tick'
    if rng.random() < 0.12:
        case['carrier'] = True
    elif rng.random() < 0.2 and not any(a[0] == 'stop' for h in case['handlers'] for a in h['body']):
        case['refire'] = rng.choice([1, 1, 2])
    if r < 0.15 or rng.random() < 0.08:
        case['earlier_run'] = {'thread': rng.random() < 0.6, 'code': rng.choice([None, 0, 3, 'bye'])}
    return case


def gen_plain_case(rng):
    nlev = rng.randint(2, 5)
    names = {lv: ['e%d_%d' % (lv, i) for i in range(rng.randint(1, 2))] for lv in range(nlev)}
    handlers = []
    hid = 0
    for lv in range(nlev):
        for nm in names[lv]:
            for _ in range(rng.randint(1, 2)):
                hid += 1
                gen = rng.random() < 0.35
                body = []
                for _ in range(rng.randint(0, 3)):
                    r = rng.random()
                    if r < 0.6 and lv + 1 < nlev:
                        spec = {'name': rng.choice(names[rng.randint(lv + 1, nlev - 1)])}
                        if rng.random() < 0.25:
                            spec['flags'] = dict(C)
                        if rng.random() < 0.3:     # feedback of its own, any combination
                            spec['flags'] = dict(spec.get('flags') or {}, **{f: True for f in ('success', 'failure', 'notify') if rng.random() < 0.5})
                        if rng.random() < 0.12:
                            spec['cancel'] = True
                        if rng.random() < 0.15:
                            spec['prio'] = rng.choice([-1, 1, 2.5, -0.5])     # fired with a priority of its own (dispatched earlier / later in its pass)
                        body.append(['fire', spec])
                    elif r < 0.68:
                        body.append(['stop'])
                    elif r < 0.72:
                        body.append(['flush'])     # a handler may flush the queue itself: what it fires afterwards is still fired while handling its event
                    elif r < 0.85 and gen:
                        body.append(['yield', rng.choice([None, 'v'])] if rng.random() < 0.8 else ['sleep', 0])   # (`yield sleep(0)`: the other suspension)
                if rng.random() < 0.12:
                    body.append(['raise'] if rng.random() < 0.75 else ['raise', 'base'])
                handlers.append(HD(hid, nm, body, gen=gen, prio=rng.choice([0, 0, 1])))
    if rng.random() < 0.3:
        # failing descendants with a <name>_failure handler that fires on, and handlers that fire derived (child) events
        deep = names[nlev - 1]
        for h in list(handlers):
            lv = next(l for l in names if h['name'] in names[l])
            if lv + 1 < nlev and rng.random() < 0.3:
                h['body'] = [a if not (a[0] == 'fire' and rng.random() < 0.6) else ['fire', dict(a[1], flags=dict(a[1].get('flags') or {}, failure=True))] for a in h['body']]
            if lv >= 1 and rng.random() < 0.25 and not any(x['name'] == h['name'] + '_failure' for x in handlers):
                hid += 1
                handlers.append(HD(hid, h['name'] + '_failure', [['fire', {'name': rng.choice(deep)}]] * rng.randint(1, 2)))
            if lv + 1 < nlev and rng.random() < 0.2 and not h['gen'] and not any(x['name'] == h['name'] + '_part' for x in handlers):
                h['body'] = [['firechild', 'part']] + h['body']
                hid += 1
                handlers.append(HD(hid, h['name'] + '_part', [['fire', {'name': rng.choice(names[lv + 1])}]]))
    fires = []
    for _ in range(rng.randint(1, 3)):
        spec = {'name': rng.choice(names[rng.randint(0, min(1, nlev - 1))]), 'flags': dict(C) if rng.random() < 0.85 else {}}
        if rng.random() < 0.15:
            spec['complete_channels'] = ['elsewhere']
        fires.append(spec)
    return {'handlers': handlers, 'fires': fires}


def plan(tier, seed):
    if tier == 'quick':
        return [{'kind': 'corpus'}] + [{'kind': 'random', 'seed': seed * 1000 + i, 'n': 120} for i in range(15)]
    return [{'kind': 'corpus'}] + [{'kind': 'random', 'seed': seed * 100000 + i, 'n': 1600} for i in range(32)]


# known-finding twins -------------------------------------------------------------------------------
def twin_uncancel(case):
    import copy
    c = copy.deepcopy(case)
    for h in c['handlers']:
        for a in h['body']:
            if a[0] == 'fire':
                a[1].pop('cancel', None)
    for s in c['fires']:
        s.pop('cancel', None)
    return c


def passes(case):
    problems, info, w = run_case(case)
    return problems is not None and not problems


def evaluate_case(b, case):
    try:
        with cpu_budget(30):
            problems, info, w = run_case(case)
    except BudgetExceeded as e:
        b.fail(case, 'NO_PROGRESS', {'error': str(e), 'note': 'the dispatcher/loop did not terminate on a finite program'}, dedup='')
        return
    except Exception as e:
        import traceback
        b.fail(case, 'HARNESS_RAISED', {'error': repr(e), 'tb': traceback.format_exc(limit=8)}, dedup=type(e).__name__)
        return
    except BaseException as e:
        if type(e).__name__ != 'BoomBase':
            raise
        # an application exception (one that does not derive from Exception) raised by a handler of the program came out of tick() /
        # flush(): the rest of the closure is abandoned with it
        import traceback
        b.case(case, nontrivial=True)
        b.fail(case, 'LOOP_RAISED', {'error': repr(e), 'tb': traceback.format_exc(limit=6),
                                     'note': 'an exception raised by a handler escaped from the dispatcher into the caller of tick()/flush()'}, dedup='')
        return
    if problems is None:
        b.inconclusive_because(info['inconclusive'])
        return
    b.case(case, nontrivial=info.get('nontrivial', False))
    for m in info.get('marks', ()):
        b.reached(m)
    first = {}
    for clause, detail in problems:
        first.setdefault(clause, detail)
    for clause, n in info.get('counts', {}).items():
        good = n - sum(1 for c, _ in problems if c == clause)
        if good > 0:
            b.ok(clause, good)
    for clause, detail in first.items():
        b.fail(case, clause, detail, dedup='')


def run_batch(spec):
    import circuits  # noqa: F401
    b = Batch(PROPERTY)
    if spec['kind'] == 'corpus':
        for case in corpus():
            evaluate_case(b, case)
    else:
        rng = random.Random(spec['seed'])
        for _ in range(spec['n']):
            evaluate_case(b, gen_case(rng))
    return b.result()


def run_replay(case):
    b = Batch(PROPERTY)
    evaluate_case(b, unjson(case))
    return b.result()

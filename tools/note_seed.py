#!/venv/bin/python
"""usage: tools/note_seed.py <seeded id> <text>  - record in seeded/<id>/meta.json how the check was strengthened; also drops DEMO path assertions."""
import json, os, re, sys
here = os.path.dirname(os.path.dirname(os.path.abspath(__file__)))
d = os.path.join(here, 'seeded', sys.argv[1])
m = json.load(open(os.path.join(d, 'meta.json')))
m['strengthened'] = sys.argv[2]
json.dump(m, open(os.path.join(d, 'meta.json'), 'w'), indent=1)

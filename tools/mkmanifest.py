#!/venv/bin/python
"""Regenerate MANIFEST.json from the metadata of the check modules (run from /verif)."""
import importlib
import json
import os
import subprocess
import sys

HERE = os.path.dirname(os.path.dirname(os.path.abspath(__file__)))
sys.path.insert(0, HERE)
props = [json.loads(l)['id'] for l in open(os.path.join(HERE, 'properties.jsonl'))]
PENDING = {}
# only checks reviewed and swept on the unchanged tree are claimed: tools/claimed.txt is the allow-list
CLAIMED = set(open(os.path.join(HERE, 'tools', 'claimed.txt')).read().split())
checks, na, engines = [], [], []
for pid in props:
    path = os.path.join(HERE, 'checks', pid.lower() + '.py')
    if not os.path.exists(path) or pid not in CLAIMED:
        na.append({'property_id': pid, 'reason': PENDING.get(pid, 'no check registered yet (work in progress; the design is in DESIGN.md section 4)')})
        continue
    mod = importlib.import_module('checks.' + pid.lower())
    checks.append({
        'property_id': pid,
        'quick_cmd': './check %s --tier quick' % pid,
        'thorough_cmd': './check %s --tier thorough' % pid,
        'evidence_file': 'evidence/%s.json' % pid,
        'replay_cmd_template': './check %s --replay {path}' % pid,
        'engine': getattr(mod, 'ENGINE', 'stepping-driver'),
        'level_claimed': {'category': mod.LEVEL, 'text': mod.LEVEL_TEXT, 'design_ref': 'DESIGN.md section 4, ' + pid},
        'level_note': mod.LEVEL_NOTE,
        'technique': mod.TECHNIQUE,
    })
fixes = subprocess.run(['git', '-C', '/repo', 'log', '--format=%h %s', '2ddfb23..HEAD'], capture_output=True, text=True).stdout.splitlines()
manifest = {
    'version': 1,
    'setup_cmd': '/venv/bin/python -B tools/setup_check.py',
    'hooks': {
        'guard': 'CIRCUITS_VERIF',
        'enable': 'no source hooks: monitors attach from outside the package (doubles installed on stdlib modules before `import circuits`, sys.monitoring, audit hooks); CIRCUITS_VERIF=1 is exported by the runner but no line of /repo reads it',
        'baseline_off_cmd': 'cd /repo && /venv/bin/python -m pytest -ra -q -p no:cacheprovider --timeout=900 --continue-on-collection-errors',
        'source_commits': [],
        'add_only': True,
    },
    'engines': [
        {'name': 'runner', 'path': 'vlib/runner.py', 'serves_properties': props, 'kind_free_text': 'plans batches, runs each in a fresh worker subprocess against /repo working tree, aggregates counters, attributes known findings through neutralised twins, writes evidence'},
        {'name': 'stepping-driver', 'path': 'vlib/prog.py', 'serves_properties': ['C01', 'C02', 'C04', 'C05', 'C06', 'C07', 'C08'], 'kind_free_text': 'generated handler programs / histories on the real dispatcher with a ghost log; fire/flush/tick stepping or the real run() in the checking thread; quiescence-decided bounded liveness; CPU-time budget for non-termination'},
        {'name': 'virtual-clock', 'path': 'vlib/vclock.py', 'serves_properties': ['C09'], 'kind_free_text': 'time.time / threading.Event doubles bound by the repository at import; every idle wait logged and turned into an exact virtual time advance'},
        {'name': 'controlled-scheduler', 'path': 'vlib/sched.py', 'serves_properties': ['C03', 'C08'], 'kind_free_text': 'real threads serialised by a baton; sys.monitoring LINE events under circuits/core are pre-emption points; RLock/Event/select/poll/epoll doubles; systematic 1-2 pre-emption schedules and random schedules; logical lost-wake-up predicate'},
        {'name': 'scripted-io', 'path': 'checks/c11.py', 'serves_properties': ['C11'], 'kind_free_text': 'socket.socket subclass with scripted send() outcomes, scripted poller, by-name wrapper of os.write for File: exhaustive fault scripts'},
        {'name': 'loopback-stepping', 'path': 'checks/c10.py checks/c12.py vlib/residue.py', 'serves_properties': ['C10', 'C12'], 'kind_free_text': 'real pollers and TCP/UNIX servers over loopback sockets owned by the harness, stepped with tick(0); set-model / automaton oracles; reachability-based residue scan'},
        {'name': 'event-injection', 'path': 'vlib/inject.py', 'serves_properties': ['C13', 'C14', 'C15', 'C16', 'C17', 'C18', 'C19', 'C20'], 'kind_free_text': 'protocol components driven by injected read/request events under a recording root, compared with independent reference codecs (vlib/ref_*.py) and differential (one-piece vs segmented) delivery'},
    ],
    'checks': checks,
    'not_applicable': na,
    'notes': 'fix: commits in /repo (unguarded repairs of genuine defects, see known_findings.json): ' + '; '.join(fixes),
}
with open(os.path.join(HERE, 'MANIFEST.json'), 'w') as f:
    json.dump(manifest, f, indent=1)
    f.write('\n')
print('claimed', [c['property_id'] for c in checks])

#!/venv/bin/python
"""Regenerate MANIFEST.json from the metadata of the check modules (run from /verif)."""
import importlib
import json
import os
import subprocess
import sys

HERE = os.path.dirname(os.path.dirname(os.path.abspath(__file__)))
sys.path.insert(0, HERE)
props = [json.loads(l)['id'] for l in open(os.path.join(HERE, 'properties.jsonl'))]
PENDING = {}
# only checks reviewed and swept on the unchanged tree are claimed: tools/claimed.txt is the allow-list
CLAIMED = set(open(os.path.join(HERE, 'tools', 'claimed.txt')).read().split())
checks, na, engines = [], [], []
for pid in props:
    path = os.path.join(HERE, 'checks', pid.lower() + '.py')
    if not os.path.exists(path) or pid not in CLAIMED:
        na.append({'property_id': pid, 'reason': PENDING.get(pid, 'no check registered yet (work in progress; the design is in DESIGN.md section 4)')})
        continue
    mod = importlib.import_module('checks.' + pid.lower())
    checks.append({
        'property_id': pid,
        'quick_cmd': './check %s --tier quick' % pid,
        'thorough_cmd': './check %s --tier thorough' % pid,
        'evidence_file': 'evidence/%s.json' % pid,
        'replay_cmd_template': './check %s --replay {path}' % pid,
        'engine': getattr(mod, 'ENGINE', 'stepping-driver'),
        'level_claimed': {'category': mod.LEVEL, 'text': mod.LEVEL_TEXT, 'design_ref': 'DESIGN.md section 4, ' + pid},
        'level_note': mod.LEVEL_NOTE,
        'technique': mod.TECHNIQUE,
    })
fixes = subprocess.run(['git', '-C', '/repo', 'log', '--format=%h %s', '2ddfb23..HEAD'], capture_output=True, text=True).stdout.splitlines()
manifest = {
    'version': 1,
    'setup_cmd': '/venv/bin/python -B tools/setup_check.py',
    'hooks': {
        'guard': 'CIRCUITS_VERIF',
        'enable': 'no source hooks: monitors attach from outside the package (doubles installed on stdlib modules before `import circuits`, sys.monitoring, audit hooks); CIRCUITS_VERIF=1 is exported by the runner but no line of /repo reads it',
        'baseline_off_cmd': 'cd /repo && /venv/bin/python -m pytest -ra -q -p no:cacheprovider --timeout=900 --continue-on-collection-errors',
        'source_commits': [],
        'add_only': True,
    },
    'engines': [
        {'name': 'runner', 'path': 'vlib/runner.py', 'serves_properties': props, 'kind_free_text': 'plans batches, runs each in a fresh worker subprocess against /repo working tree, aggregates counters, attributes known findings, writes evidence'},
        {'name': 'stepping-driver', 'path': 'vlib/driver.py', 'serves_properties': ['C01', 'C02', 'C04', 'C05', 'C06', 'C07', 'C08', 'C09'], 'kind_free_text': 'single-threaded fire/flush/tick stepping with ghost log; quiescence-decided bounded liveness'},
    ],
    'checks': checks,
    'not_applicable': na,
    'notes': 'fix: commits in /repo (unguarded repairs of genuine defects, see known_findings.json): ' + '; '.join(fixes),
}
with open(os.path.join(HERE, 'MANIFEST.json'), 'w') as f:
    json.dump(manifest, f, indent=1)
    f.write('\n')
print('claimed', [c['property_id'] for c in checks])

#!/venv/bin/python
"""Merge known_findings.d/*.json fragments into known_findings.json.
usage: merge_findings.py CNN key=commit [key=commit ...]   (keys given are recorded as fixed by that /repo commit)"""
import json
import os
import sys

HERE = os.path.dirname(os.path.dirname(os.path.abspath(__file__)))
prop = sys.argv[1]
fixed = dict(a.split('=') for a in sys.argv[2:])
main = json.load(open(os.path.join(HERE, 'known_findings.json')))
frag_path = os.path.join(HERE, 'known_findings.d', prop + '.json')
frag = json.load(open(frag_path))
have = {(e['property'], e['key']) for e in main['findings']}
for e in frag['findings']:
    if (e['property'], e['key']) in have:
        continue
    if e['key'] in fixed:
        e['status'] = 'fixed'
        e['commit'] = fixed[e['key']]
        e['line'] = 'fixed: property=%s %s %s' % (e['property'], e['commit'], e['what'])
    main['findings'].append(e)
json.dump(main, open(os.path.join(HERE, 'known_findings.json'), 'w'), indent=1)
os.remove(frag_path)
print('merged', prop, [(e['key'], e['status']) for e in frag['findings']])

#!/venv/bin/python
"""Run a seeded change against the checks without touching /repo: copy /repo (package + tests) to a scratch dir,
apply <seeded dir>/patch.diff, run the demonstration on both trees and the property's check against the patched copy.
usage: tools/try_seed.py <dir with patch.diff [DEMO.py NOTES.md]> <CNN> [tier] [--keep <seeded id>]
With --keep the patch, demonstration, notes and a meta.json recording what was run are stored under /verif/seeded/<id>/."""
import os
import shutil
import subprocess
import sys
import tempfile

import json
argv = list(sys.argv)
keep = None
if '--keep' in argv:
    i = argv.index('--keep')
    keep = argv[i + 1]
    del argv[i:i + 2]
d, prop = argv[1], argv[2]
tier = argv[3] if len(argv) > 3 else 'quick'
rec = {'property': prop, 'tier_run': tier}
here = os.path.dirname(os.path.dirname(os.path.abspath(__file__)))
scratch = tempfile.mkdtemp(prefix='vseed-', dir='/var/tmp')
try:
    shutil.copytree('/repo/circuits', os.path.join(scratch, 'circuits'), ignore=shutil.ignore_patterns('__pycache__'))
    demo = os.path.join(scratch, 'DEMO.py')
    if os.path.exists(os.path.join(d, 'DEMO.py')):
        shutil.copy(os.path.join(d, 'DEMO.py'), demo)
    if os.path.exists(demo):
        r0 = subprocess.run(['/venv/bin/python', '-B', demo], env=dict(os.environ, PYTHONPATH=scratch), capture_output=True, text=True, cwd=scratch, timeout=600)
        print('demo on unchanged tree: exit', r0.returncode)
        rec['demo_exit_unchanged_tree'] = r0.returncode
    r = subprocess.run(['patch', '-p1', '-s', '-i', os.path.abspath(os.path.join(d, 'patch.diff'))], cwd=scratch, capture_output=True, text=True)
    if r.returncode:
        print('PATCH FAILED', r.stdout, r.stderr)
        sys.exit(3)
    if os.path.exists(demo):
        r1 = subprocess.run(['/venv/bin/python', '-B', demo], env=dict(os.environ, PYTHONPATH=scratch), capture_output=True, text=True, cwd=scratch, timeout=600)
        print('demo on changed tree:   exit', r1.returncode, (r1.stdout + r1.stderr).strip().splitlines()[-1:])
        rec['demo_exit_changed_tree'] = r1.returncode
        rec['demo_last_line_changed_tree'] = ((r1.stdout + r1.stderr).strip().splitlines() or [''])[-1][:300]
    rc = subprocess.run([os.path.join(here, 'check'), prop, '--tier', tier, '--no-evidence'], env=dict(os.environ, VERIF_REPO=scratch),
                        capture_output=True, text=True)
    lines = [l for l in rc.stdout.splitlines() if l.startswith(('VIOLATION', 'HELD', 'INCONCLUSIVE', '  clause'))]
    print('check %s %s on changed tree: exit %d' % (prop, tier, rc.returncode))
    for l in lines[:4]:
        print('   ', l[:300])
    rec['check_exit_on_changed_tree'] = rc.returncode
    rec['check_first_lines'] = [l[:300] for l in lines[:3]]
    if keep:
        dst = os.path.join(here, 'seeded', keep)
        os.makedirs(dst, exist_ok=True)
        for f in ('patch.diff', 'DEMO.py', 'NOTES.md'):
            if os.path.exists(os.path.join(d, f)):
                shutil.copy(os.path.join(d, f), os.path.join(dst, f))
        meta_path = os.path.join(dst, 'meta.json')
        meta = json.load(open(meta_path)) if os.path.exists(meta_path) else {}
        meta.update({'id': keep, 'breaks_property': prop, 'written_by': 'fresh sub-agent given only the property text and a scratch worktree',
                     'needs_to_manifest': meta.get('needs_to_manifest', 'see NOTES.md'),
                     'what_was_run': 'tools/try_seed.py: DEMO.py on a copy of /repo (must exit 0) and on the copy with patch.diff applied (must exit != 0); ./check %s --tier %s with VERIF_REPO pointing at the patched copy' % (prop, tier)})
        meta.setdefault('runs', []).append(rec)
        json.dump(meta, open(meta_path, 'w'), indent=1)
        print('kept as', dst)
finally:
    shutil.rmtree(scratch, ignore_errors=True)

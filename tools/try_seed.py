#!/venv/bin/python
"""Run a seeded change against the checks without touching /repo: copy /repo (package + tests) to a scratch dir,
apply <seeded dir>/patch.diff, run the demonstration on both trees and the property's check against the patched copy.
usage: tools/try_seed.py <dir with patch.diff [DEMO.py]> <CNN> [tier]"""
import os
import shutil
import subprocess
import sys
import tempfile

d, prop = sys.argv[1], sys.argv[2]
tier = sys.argv[3] if len(sys.argv) > 3 else 'quick'
here = os.path.dirname(os.path.dirname(os.path.abspath(__file__)))
scratch = tempfile.mkdtemp(prefix='vseed-', dir='/var/tmp')
try:
    shutil.copytree('/repo/circuits', os.path.join(scratch, 'circuits'), ignore=shutil.ignore_patterns('__pycache__'))
    demo = os.path.join(d, 'DEMO.py')
    if os.path.exists(demo):
        r0 = subprocess.run(['/venv/bin/python', '-B', demo], env=dict(os.environ, PYTHONPATH=scratch), capture_output=True, text=True, cwd=scratch, timeout=600)
        print('demo on unchanged tree: exit', r0.returncode)
    r = subprocess.run(['patch', '-p1', '-s', '-i', os.path.abspath(os.path.join(d, 'patch.diff'))], cwd=scratch, capture_output=True, text=True)
    if r.returncode:
        print('PATCH FAILED', r.stdout, r.stderr)
        sys.exit(3)
    if os.path.exists(demo):
        r1 = subprocess.run(['/venv/bin/python', '-B', demo], env=dict(os.environ, PYTHONPATH=scratch), capture_output=True, text=True, cwd=scratch, timeout=600)
        print('demo on changed tree:   exit', r1.returncode, (r1.stdout + r1.stderr).strip().splitlines()[-1:] )
    rc = subprocess.run([os.path.join(here, 'check'), prop, '--tier', tier, '--no-evidence'], env=dict(os.environ, VERIF_REPO=scratch),
                        capture_output=True, text=True)
    lines = [l for l in rc.stdout.splitlines() if l.startswith(('VIOLATION', 'HELD', 'INCONCLUSIVE', '  clause'))]
    print('check %s %s on changed tree: exit %d' % (prop, tier, rc.returncode))
    for l in lines[:4]:
        print('   ', l[:300])
finally:
    shutil.rmtree(scratch, ignore_errors=True)

#!/bin/sh
# run every kept seeded change against the quick tier of its property (scratch copies, /repo untouched)
cd "$(dirname "$0")/.." || exit 2
for d in seeded/*/; do
  id=$(basename "$d"); prop=${id%%-*}
  res=$(/venv/bin/python tools/try_seed.py "$d" "$prop" quick 2>&1 | grep -E "^check|PATCH FAILED|demo on" | tr '\n' ' ' | cut -c1-200)
  echo "$id: $res"
done

#!/bin/sh
# run every kept seeded change against the quick tier of its property (scratch copies, /repo untouched)
cd "$(dirname "$0")/.." || exit 2
for d in seeded/*/; do
  id=$(basename "$d"); prop=${id%%-*}
  out=$(/venv/bin/python tools/try_seed.py "$d" "$prop" quick 2>&1)
  d0=$(echo "$out" | sed -n 's/^demo on unchanged tree: exit \([0-9]*\).*/\1/p')
  d1=$(echo "$out" | sed -n 's/^demo on changed tree:   exit \([0-9]*\).*/\1/p')
  ck=$(echo "$out" | sed -n 's/^check .* on changed tree: exit \([0-9]*\).*/\1/p')
  cl=$(echo "$out" | sed -n 's/^ *clause=\([A-Z_]*\).*/\1/p' | head -1)
  echo "$id demo_unchanged=$d0 demo_changed=$d1 check_exit=$ck first_clause=$cl $(echo "$out" | grep -c 'PATCH FAILED' | sed 's/^0$//;s/^[1-9].*/PATCH-FAILED/')"
done

#!/venv/bin/python
"""Which lines of the repository does a check's quick tier execute?  (a development aid, not a registered check)
usage: tools/covcheck.py CNN [file-substring ...]     -> prints, per circuits/ file matching a substring (default: the property's anchor
files), the lines the quick-tier batches of the check never executed.  Each batch runs in its own process under coverage.py; data goes to
a scratch directory outside /verif that is removed afterwards."""
import json
import os
import shutil
import subprocess
import sys
import tempfile
from concurrent.futures import ThreadPoolExecutor

HERE = os.path.dirname(os.path.dirname(os.path.abspath(__file__)))
sys.path.insert(0, HERE)
prop = sys.argv[1]
subs = sys.argv[2:]
mod = 'c' + prop[1:]
import importlib  # noqa: E402
m = importlib.import_module('checks.' + mod)
specs = m.plan('quick', 0)
if not subs:
    for line in open(os.path.join(HERE, 'properties.jsonl')):
        d = json.loads(line)
        if d['id'] == prop:
            subs = d['anchors']['files']
scratch = tempfile.mkdtemp(prefix='vcov-', dir='/var/tmp')
CODE = r'''
import sys, json, os
sys.path[:0] = ['/repo', %r]
import coverage
cov = coverage.Coverage(data_file=%r, data_suffix=True, include=['/repo/circuits/*'], concurrency=['thread'])
cov.start()
import importlib
mod = importlib.import_module('checks.%s')
spec = json.loads(sys.argv[1])
try:
    mod.run_batch(spec)
finally:
    cov.stop(); cov.save()
os._exit(0)
'''


def one(spec):
    code = CODE % (HERE, os.path.join(scratch, 'cov'), mod)
    r = subprocess.run(['/venv/bin/python', '-B', '-c', code, json.dumps(spec)], capture_output=True, text=True, timeout=1800)
    return r.returncode, r.stderr[-300:]


try:
    with ThreadPoolExecutor(8) as ex:
        for rc, err in ex.map(one, specs):
            if rc:
                print('batch failed:', err)
    import coverage
    cov = coverage.Coverage(data_file=os.path.join(scratch, 'cov'))
    cov.combine([scratch])
    data = cov.get_data()
    for f in sorted(data.measured_files()):
        if not any(s in f for s in subs):
            continue
        _, stmts, _, missing, fmt = cov.analysis2(f)
        print('%s: %d statements, %d never executed' % (f, len(stmts), len(missing)))
        print('   missing:', fmt)
finally:
    shutil.rmtree(scratch, ignore_errors=True)

#!/bin/sh
# closing routine: regenerate MANIFEST.json, rewrite every evidence file with the quick tier (seed 0), validate both against the schemas
cd "$(dirname "$0")/.." || exit 2
/venv/bin/python tools/mkmanifest.py >/dev/null || exit 2
rc=0
for i in 01 02 03 04 05 06 07 08 09 10 11 12 13 14 15 16 17 18 19 20; do
  out=$(VERIF_SEED=0 ./check C$i --tier quick 2>&1 | grep -v '^KNOWN-FINDING' | head -1 | cut -c1-140)
  echo "$out"
  case "$out" in HELD*) ;; *) rc=1;; esac
done
python3-vt - <<'PY' || rc=1
import json, jsonschema, glob
m = json.load(open('/verif/MANIFEST.json'))
jsonschema.validate(m, json.load(open('/root/.vp/MANIFEST.schema.json')))
es = json.load(open('/root/.vp/EVIDENCE.schema.json'))
n = 0
for f in sorted(glob.glob('/verif/evidence/C*.json')):
    jsonschema.validate(json.load(open(f)), es)
    n += 1
print('manifest valid; %d evidence files valid' % n)
PY
exit $rc

"""MANIFEST.setup_cmd: nothing to build (pure Python, circuits runs from /repo's working tree);
validate what the checks rely on."""
import os
import socket
import sys

sys.path[:0] = ['/repo']
assert sys.version_info >= (3, 12), 'sys.monitoring needs 3.12'
assert hasattr(sys, 'monitoring')
import circuits  # noqa: E402

assert os.path.realpath(circuits.__file__).startswith('/repo/'), circuits.__file__
s = socket.socket()
s.bind(('127.0.0.1', 0))
s.listen(1)
c = socket.create_connection(s.getsockname())
a, _ = s.accept()
c.send(b'x')
assert a.recv(1) == b'x'
for x in (a, c, s):
    x.close()
os.makedirs(os.path.join(os.path.dirname(os.path.dirname(os.path.abspath(__file__))), 'evidence'), exist_ok=True)
print('setup ok: python %s, circuits from %s' % (sys.version.split()[0], os.path.dirname(circuits.__file__)))
